package main

// Type universe, boundary-biased value generator and the reference model of the
// value -> RLP mapping (written from rlp/doc.go, shares no code with package rlp).

import (
	"bytes"
	"fmt"
	"math/big"
	"math/rand"
	"reflect"
	"sync/atomic"

	"github.com/ethereum/go-ethereum/rlp"
	"github.com/holiman/uint256"

	"verif/lib/refrlp"
)

var (
	tBigPtr  = reflect.TypeOf((*big.Int)(nil))
	tBig     = tBigPtr.Elem()
	tU256Ptr = reflect.TypeOf((*uint256.Int)(nil))
	tU256    = tU256Ptr.Elem()
	tRaw     = reflect.TypeOf(rlp.RawValue{})
	tBytes   = reflect.TypeOf([]byte{})
	tString  = reflect.TypeOf("")
	tBool    = reflect.TypeOf(false)
	tUints   = []reflect.Type{reflect.TypeOf(uint8(0)), reflect.TypeOf(uint16(0)), reflect.TypeOf(uint32(0)), reflect.TypeOf(uint64(0)), reflect.TypeOf(uint(0))}
)

var byteArrayLens = []int{0, 1, 2, 20, 32}

// isLeafSpecial reports the types that must be recognised by identity before looking at Kind.
func isLeafSpecial(t reflect.Type) bool {
	return t == tBigPtr || t == tBig || t == tU256Ptr || t == tU256 || t == tRaw
}

func isByteSeq(t reflect.Type) bool {
	return (t.Kind() == reflect.Slice || t.Kind() == reflect.Array) && t.Elem().Kind() == reflect.Uint8
}

// typeGen builds reflect types. Struct field names contain uniq so that the types are new to
// package rlp's type cache.
type typeGen struct {
	rng  *rand.Rand
	uniq string
	n    int
}

func (g *typeGen) leaf() reflect.Type {
	switch g.rng.Intn(14) {
	case 0, 1:
		return tUints[g.rng.Intn(len(tUints))]
	case 2:
		return tUints[3]
	case 3:
		return tBigPtr
	case 4:
		return tBig
	case 5:
		return tU256Ptr
	case 6:
		return tU256
	case 7:
		return tBool
	case 8, 9:
		return tBytes
	case 10, 11:
		return reflect.ArrayOf(byteArrayLens[g.rng.Intn(len(byteArrayLens))], tUints[0])
	case 12:
		return tString
	default:
		return tRaw
	}
}

func (g *typeGen) typ(depth int) reflect.Type {
	if depth <= 0 || g.rng.Intn(10) < 3 {
		return g.leaf()
	}
	switch g.rng.Intn(10) {
	case 0, 1, 2:
		return reflect.SliceOf(g.typ(depth - 1))
	case 3:
		return reflect.ArrayOf(g.rng.Intn(4), g.typ(depth-1))
	case 4, 5, 6, 7:
		return g.structOf(depth)
	default:
		e := g.typ(depth - 1)
		// no pointer-to-pointer, no pointer to RawValue (nil encodings of those are not
		// decodable into the same type; outside the property's type list)
		if e.Kind() == reflect.Pointer || e == tRaw {
			return e
		}
		return reflect.PointerTo(e)
	}
}

func (g *typeGen) structOf(depth int) reflect.Type {
	nf := g.rng.Intn(6)
	fields := make([]reflect.StructField, nf)
	for i := range fields {
		g.n++
		fields[i] = reflect.StructField{Name: fmt.Sprintf("F%s_%d", g.uniq, g.n), Type: g.typ(depth - 1)}
	}
	return reflect.StructOf(fields)
}

// kindName is the coarse target kind used in evidence signatures.
func kindName(t reflect.Type) string {
	switch {
	case t == tBigPtr || t == tBig:
		return "big"
	case t == tU256Ptr || t == tU256:
		return "u256"
	case t == tRaw:
		return "raw"
	case isByteSeq(t):
		if t.Kind() == reflect.Array {
			return "bytearray"
		}
		return "bytes"
	}
	switch t.Kind() {
	case reflect.Uint8, reflect.Uint16, reflect.Uint32, reflect.Uint64, reflect.Uint:
		return "uint"
	case reflect.Bool:
		return "bool"
	case reflect.String:
		return "string"
	case reflect.Slice:
		return "slice"
	case reflect.Array:
		return "array"
	case reflect.Struct:
		return "struct"
	case reflect.Pointer:
		return "ptr-" + kindName(t.Elem())
	case reflect.Interface:
		return "iface"
	}
	return "other"
}

// emptyOK reports whether the empty value (0x80 / 0xC0) written for a nil pointer to t
// decodes into t. Documented (rlp/doc.go): without a "nil" struct tag a nil pointer is
// written as an empty string/list and decoding never produces nil; for element types whose
// every encoding is non-empty (non-empty arrays, structs with fields) that empty value is not
// a valid encoding of t, so a nil pointer there has no decodable encoding at all.
func emptyOK(t reflect.Type) bool {
	switch {
	case t == tBig || t == tU256 || t == tBigPtr || t == tU256Ptr:
		return true
	case t == tRaw:
		return false
	}
	switch t.Kind() {
	case reflect.Uint8, reflect.Uint16, reflect.Uint32, reflect.Uint64, reflect.Uint, reflect.Bool, reflect.String, reflect.Slice:
		return true
	case reflect.Array:
		return t.Len() == 0
	case reflect.Struct:
		return t.NumField() == 0
	}
	return false
}

// ---------------------------------------------------------------------------------------
// values

var boundaryLens = []int{0, 1, 1, 2, 3, 31, 32, 33, 54, 55, 56, 57, 255, 256, 257}

func genBytes(rng *rand.Rand, big bool) []byte {
	var n int
	switch x := rng.Intn(20); {
	case x < 12:
		n = boundaryLens[rng.Intn(len(boundaryLens))]
	case x < 19:
		n = rng.Intn(300)
	default:
		if big {
			n = []int{65535, 65536, 65537}[rng.Intn(3)]
		} else {
			n = rng.Intn(300)
		}
	}
	b := make([]byte, n)
	rng.Read(b)
	if n >= 1 {
		switch rng.Intn(6) {
		case 0:
			b[0] = 0
		case 1:
			b[0] = 0x7f
		case 2:
			b[0] = 0x80
		case 3:
			b[0] = byte(rng.Intn(0x80))
		}
	}
	return b
}

func genUint(rng *rand.Rand, bits int) uint64 {
	var x uint64
	switch rng.Intn(8) {
	case 0:
		x = []uint64{0, 1, 0x7f, 0x80, 0xff, 0x100, 55, 56}[rng.Intn(8)]
	case 1, 2:
		k := uint(rng.Intn(8)+1) * 8
		var p uint64
		if k < 64 {
			p = 1 << k
		}
		x = p + uint64(rng.Intn(3)) - 1
	case 3:
		x = ^uint64(0) - uint64(rng.Intn(2))
	case 4:
		x = rng.Uint64() >> uint(rng.Intn(64))
	default:
		x = rng.Uint64()
	}
	if bits < 64 {
		x &= 1<<uint(bits) - 1
	}
	return x
}

func genBig(rng *rand.Rand, maxBits int) *big.Int {
	switch rng.Intn(8) {
	case 0:
		return new(big.Int).SetUint64(genUint(rng, 64))
	case 1, 2:
		k := uint(rng.Intn(maxBits/8)+1) * 8
		x := new(big.Int).Lsh(big.NewInt(1), k)
		x.Add(x, big.NewInt(int64(rng.Intn(3))-1))
		if x.BitLen() > maxBits {
			x.Sub(new(big.Int).Lsh(big.NewInt(1), uint(maxBits)), big.NewInt(1))
		}
		return x
	case 3:
		return new(big.Int).Sub(new(big.Int).Lsh(big.NewInt(1), uint(maxBits)), big.NewInt(1+int64(rng.Intn(2))))
	case 4:
		return new(big.Int)
	default:
		b := make([]byte, rng.Intn(maxBits/8)+1)
		rng.Read(b)
		return new(big.Int).SetBytes(b)
	}
}

// genItem builds a random RLP item tree of bounded size.
func genItem(rng *rand.Rand, depth int) *refrlp.Item {
	wide := 1
	return genItemB(rng, depth, &wide)
}

func genItemB(rng *rand.Rand, depth int, wide *int) *refrlp.Item {
	if depth <= 0 || rng.Intn(3) == 0 {
		b := genBytes(rng, false)
		if rng.Intn(3) > 0 && len(b) > 60 {
			b = b[:rng.Intn(60)]
		}
		return refrlp.Str(b)
	}
	n := rng.Intn(5)
	if *wide > 0 && rng.Intn(12) == 0 {
		// at most one wide list per tree (crosses the 55-byte list boundary without
		// multiplying sizes through nesting)
		*wide--
		n = 50 + rng.Intn(20)
	}
	it := refrlp.List()
	for i := 0; i < n; i++ {
		it.List = append(it.List, genItemB(rng, depth-1, wide))
	}
	return it
}

// genValue returns an addressable value of type t. hasBadNil is set when the value contains
// a nil pointer whose written form is not decodable (see emptyOK).
func genValue(rng *rand.Rand, t reflect.Type, hasBadNil *bool) reflect.Value {
	v := reflect.New(t).Elem()
	g := &filler{rng: rng, bad: hasBadNil, wide: 1, budget: 6000}
	g.fill(v, 0)
	return v
}

// filler carries the size budget of one value: one wide slice, and a soft cap on the total
// number of string bytes (beyond it strings shrink), so that nesting does not multiply sizes.
type filler struct {
	rng    *rand.Rand
	bad    *bool
	wide   int
	budget int
}

func (g *filler) bytes(top bool) []byte {
	b := genBytes(g.rng, top)
	if !top {
		if g.budget <= 0 && len(b) > 3 {
			b = b[:g.rng.Intn(3)+1]
		}
		g.budget -= len(b)
	}
	return b
}

func (g *filler) fill(v reflect.Value, depth int) {
	rng, bad := g.rng, g.bad
	t := v.Type()
	switch {
	case t == tBigPtr:
		if rng.Intn(10) == 0 {
			return // nil
		}
		v.Set(reflect.ValueOf(genBig(rng, 320)))
		return
	case t == tBig:
		v.Set(reflect.ValueOf(*genBig(rng, 320)))
		return
	case t == tU256Ptr:
		if rng.Intn(10) == 0 {
			return
		}
		x, _ := uint256.FromBig(genBig(rng, 256))
		v.Set(reflect.ValueOf(x))
		return
	case t == tU256:
		x, _ := uint256.FromBig(genBig(rng, 256))
		v.Set(reflect.ValueOf(*x))
		return
	case t == tRaw:
		v.SetBytes(refrlp.Encode(genItem(rng, 2)))
		return
	}
	switch t.Kind() {
	case reflect.Uint8, reflect.Uint16, reflect.Uint32, reflect.Uint64, reflect.Uint:
		v.SetUint(genUint(rng, t.Bits()))
	case reflect.Bool:
		v.SetBool(rng.Intn(2) == 0)
	case reflect.String:
		v.SetString(string(g.bytes(depth == 0)))
	case reflect.Slice:
		if t.Elem().Kind() == reflect.Uint8 {
			if rng.Intn(12) == 0 {
				return // nil slice
			}
			v.SetBytes(g.bytes(depth == 0))
			return
		}
		if rng.Intn(12) == 0 {
			return
		}
		n := rng.Intn(5)
		if g.wide > 0 && rng.Intn(15) == 0 {
			g.wide--
			n = 50 + rng.Intn(20)
		}
		s := reflect.MakeSlice(t, n, n)
		for i := 0; i < n; i++ {
			g.fill(s.Index(i), depth+1)
		}
		v.Set(s)
	case reflect.Array:
		if t.Elem().Kind() == reflect.Uint8 {
			b := make([]byte, t.Len())
			rng.Read(b)
			if len(b) > 0 {
				switch rng.Intn(5) {
				case 0:
					b[0] = 0
				case 1:
					b[0] = byte(rng.Intn(0x80))
				case 2:
					b[0] = 0x80
				}
			}
			reflect.Copy(v, reflect.ValueOf(b))
			return
		}
		for i := 0; i < t.Len(); i++ {
			g.fill(v.Index(i), depth+1)
		}
	case reflect.Struct:
		for i := 0; i < t.NumField(); i++ {
			g.fill(v.Field(i), depth+1)
		}
	case reflect.Pointer:
		if rng.Intn(8) == 0 {
			if !emptyOK(t.Elem()) {
				*bad = true
			}
			return // nil
		}
		p := reflect.New(t.Elem())
		g.fill(p.Elem(), depth+1)
		v.Set(p)
	default:
		panic("harness: unsupported kind " + t.String())
	}
}

// ---------------------------------------------------------------------------------------
// reference model: value -> canonical encoding

func minimalBytes(x uint64) []byte {
	var b []byte
	for ; x > 0; x >>= 8 {
		b = append([]byte{byte(x)}, b...)
	}
	return b
}

// wrapList is refrlp.EncodeListRaw with one allocation (same output; the equality of the two is
// asserted on every 64th call).
var wrapCalls atomic.Uint64

func wrapList(items [][]byte) []byte {
	n := 0
	for _, it := range items {
		n += len(it)
	}
	h := header(0xc0, n, mNone)
	out := make([]byte, 0, len(h)+n)
	out = append(out, h...)
	for _, it := range items {
		out = append(out, it...)
	}
	if wrapCalls.Add(1)%64 == 0 && !bytes.Equal(out, refrlp.EncodeListRaw(items...)) {
		panic("harness: wrapList disagrees with refrlp.EncodeListRaw")
	}
	return out
}

// model returns the reference encoding of v per rlp/doc.go.
func model(v reflect.Value) []byte {
	t := v.Type()
	switch {
	case t == tBigPtr:
		if v.IsNil() {
			return []byte{0x80}
		}
		return refrlp.EncodeString(v.Interface().(*big.Int).Bytes())
	case t == tBig:
		x := v.Interface().(big.Int)
		return refrlp.EncodeString(x.Bytes())
	case t == tU256Ptr:
		if v.IsNil() {
			return []byte{0x80}
		}
		return refrlp.EncodeString(v.Interface().(*uint256.Int).ToBig().Bytes())
	case t == tU256:
		x := v.Interface().(uint256.Int)
		return refrlp.EncodeString(x.ToBig().Bytes())
	case t == tRaw:
		return append([]byte{}, v.Bytes()...)
	}
	switch t.Kind() {
	case reflect.Uint8, reflect.Uint16, reflect.Uint32, reflect.Uint64, reflect.Uint:
		return refrlp.EncodeString(minimalBytes(v.Uint()))
	case reflect.Bool:
		if v.Bool() {
			return []byte{0x01}
		}
		return []byte{0x80}
	case reflect.String:
		return refrlp.EncodeString([]byte(v.String()))
	case reflect.Slice, reflect.Array:
		if t.Elem().Kind() == reflect.Uint8 {
			b := make([]byte, v.Len())
			for i := range b {
				b[i] = byte(v.Index(i).Uint())
			}
			return refrlp.EncodeString(b)
		}
		items := make([][]byte, v.Len())
		for i := range items {
			items[i] = model(v.Index(i))
		}
		return wrapList(items)
	case reflect.Struct:
		items := make([][]byte, t.NumField())
		for i := range items {
			items[i] = model(v.Field(i))
		}
		return wrapList(items)
	case reflect.Pointer:
		if !v.IsNil() {
			return model(v.Elem())
		}
		e := t.Elem()
		// "A nil pointer to a struct type, slice or array always encodes as an empty RLP
		// list unless the slice or array has element type byte. A nil pointer to any other
		// value encodes as the empty string."
		if isByteSeq(e) || e == tBig || e == tU256 {
			return []byte{0x80}
		}
		switch e.Kind() {
		case reflect.Struct, reflect.Slice, reflect.Array:
			return []byte{0xC0}
		}
		return []byte{0x80}
	}
	panic("harness: model of unsupported kind " + t.String())
}
