package main

// Clause (d): the raw splitting helpers (rlp.Split*, CountValues, SplitListValues,
// AppendUint64, *Size) against the streaming decoder and against refrlp.

import (
	"bytes"
	"errors"
	"fmt"
	"io"
	"strings"

	"github.com/ethereum/go-ethereum/rlp"

	"verif/lib/refrlp"
	"verif/lib/vrt"
)

// headerFlaws is an independent classification of the first header of b: which defects it
// has. A header can be both short and non-canonical (e.g. "b8 05" at end of input); an
// implementation may then report either.
func headerFlaws(b []byte) (short, noncanon bool) {
	if len(b) == 0 {
		return true, false
	}
	p := b[0]
	var ll int
	switch {
	case p < 0x80:
		return false, false
	case p <= 0xb7:
		n := int(p - 0x80)
		if n == 1 && len(b) >= 2 && b[1] < 0x80 {
			noncanon = true
		}
		return len(b) < 1+n, noncanon
	case p <= 0xbf:
		ll = int(p - 0xb7)
	case p <= 0xf7:
		return len(b) < 1+int(p-0xc0), false
	default:
		ll = int(p - 0xf7)
	}
	if len(b) >= 2 && b[1] == 0 {
		noncanon = true
	}
	if len(b) < 1+ll {
		return true, noncanon
	}
	var n uint64
	for _, c := range b[1 : 1+ll] {
		n = n<<8 | uint64(c)
	}
	if n < 56 {
		noncanon = true
	}
	if n > uint64(len(b)-1-ll) {
		short = true
	}
	return short, noncanon
}

func errClass(err error) string {
	switch {
	case err == nil:
		return "ok"
	case errors.Is(err, rlp.ErrCanonSize):
		return "canon-size"
	case errors.Is(err, rlp.ErrCanonInt):
		return "canon-int"
	case errors.Is(err, rlp.ErrValueTooLarge):
		return "value-too-large"
	case errors.Is(err, rlp.ErrElemTooLarge):
		return "elem-too-large"
	case errors.Is(err, rlp.ErrExpectedList):
		return "expected-list"
	case errors.Is(err, rlp.ErrExpectedString):
		return "expected-string"
	case errors.Is(err, rlp.ErrMoreThanOneValue):
		return "more-than-one"
	case errors.Is(err, io.ErrUnexpectedEOF):
		return "unexpected-eof"
	case errors.Is(err, io.EOF):
		return "eof"
	case errors.Is(err, rlp.EOL):
		return "eol"
	}
	s := err.Error()
	for _, p := range [][2]string{
		{"non-canonical integer", "canon-int"}, {"non-canonical size", "canon-size"},
		{"expected input list", "expected-list"}, {"expected input string", "expected-string"},
		{"input string too long", "too-long"}, {"input string too short", "too-short"},
		{"too few elements", "too-few"}, {"too many elements", "too-many"},
		{"invalid boolean", "bad-bool"}, {"uint overflow", "uint-overflow"}, {"value too large for uint256", "u256-large"},
		{"wrong size", "wrong-size"},
	} {
		if strings.Contains(s, p[0]) {
			return p[1]
		}
	}
	return "other"
}

// checkSentinel verifies that a header-level error of package rlp names a defect the header
// really has ("agree on which inputs are non-canonical").
func checkSentinel(r *vrt.Run, who string, b []byte, err error, w map[string]any) {
	short, noncanon := headerFlaws(b)
	switch errClass(err) {
	case "canon-size", "canon-int":
		if !noncanon {
			r.Violation("raw:"+who+":canon-error-on-canonical-header", fmt.Sprintf("%s(%x): %v but the header is canonical", who, b, err), w)
		}
	case "value-too-large", "unexpected-eof", "eof", "elem-too-large":
		if !short {
			r.Violation("raw:"+who+":short-error-on-complete-value", fmt.Sprintf("%s(%x): %v but the value is complete", who, b, err), w)
		}
	}
}

// checkRaw judges one byte string against clause (d). mk is the mutation kind (evidence only).
func checkRaw(r *vrt.Run, ci int, b []byte, mk mutKind) {
	w := map[string]any{"input": vrt.Hex(b), "mutation": mk.String()}
	r.Guard("raw", w, func() {
		in := append([]byte{}, b...)
		refList, off, n, refErr := refrlp.Header(b)

		// ---- Split
		k, content, rest, err := rlp.Split(in)
		ag.Count(ci, "split_calls", 1)
		if !bytes.Equal(in, b) {
			r.Violation("raw:split:mutates-input", "Split modified its input", w)
		}
		if (err == nil) != (refErr == nil) {
			r.Violation("raw:split:accept-differs", fmt.Sprintf("Split(%x) err=%v, reference header err=%v", b, err, refErr), w)
		} else if err == nil {
			wantKind := rlp.String
			if refList {
				wantKind = rlp.List
			} else if b[0] < 0x80 {
				wantKind = rlp.Byte
			}
			if k != wantKind || !bytes.Equal(content, b[off:off+n]) || !bytes.Equal(rest, b[off+n:]) {
				r.Violation("raw:split:boundaries", fmt.Sprintf("Split(%x) = (%v, %x, %x), reference (%v, %x, %x)", b, k, content, rest, wantKind, b[off:off+n], b[off+n:]), w)
			}
		} else {
			checkSentinel(r, "Split", b, err, w)
		}
		splitErr := err

		// ---- SplitString / SplitList
		sc, srest, serr := rlp.SplitString(in)
		lc, lrest, lerr := rlp.SplitList(in)
		wantS := refErr == nil && !refList
		wantL := refErr == nil && refList
		if (serr == nil) != wantS || (lerr == nil) != wantL {
			r.Violation("raw:splitstring-list:accept-differs", fmt.Sprintf("input %x: SplitString err=%v SplitList err=%v, reference list=%v err=%v", b, serr, lerr, refList, refErr), w)
		}
		if serr == nil && wantS && (!bytes.Equal(sc, b[off:off+n]) || !bytes.Equal(srest, b[off+n:])) {
			r.Violation("raw:splitstring:boundaries", fmt.Sprintf("SplitString(%x) = (%x, %x)", b, sc, srest), w)
		}
		if lerr == nil && wantL && (!bytes.Equal(lc, b[off:off+n]) || !bytes.Equal(lrest, b[off+n:])) {
			r.Violation("raw:splitlist:boundaries", fmt.Sprintf("SplitList(%x) = (%x, %x)", b, lc, lrest), w)
		}

		// ---- Stream on the same bytes (top level, input limit = len(b))
		st := rlp.NewStream(bytes.NewReader(b), 0)
		sk, ssize, kerr := st.Kind()
		var stErr error = kerr
		var stContent []byte
		if kerr == nil {
			switch sk {
			case rlp.Byte, rlp.String:
				stContent, stErr = st.Bytes()
			case rlp.List:
				_, stErr = st.List()
				if stErr == nil {
					// content of the list = everything the list context allows to read
					stContent = make([]byte, 0, ssize)
					for {
						raw, e := st.Raw()
						if e == rlp.EOL {
							break
						}
						if e != nil {
							stContent = nil
							break // inner defects are not header defects; boundaries judged below via Raw
						}
						stContent = append(stContent, raw...)
					}
				}
			}
		}
		ag.Count(ci, "split_vs_stream", 1)
		if (stErr == nil) != (splitErr == nil) {
			r.Violation("raw:split-vs-stream:accept-differs", fmt.Sprintf("input %x: Split err=%v, Stream err=%v", b, splitErr, stErr), w)
		} else if stErr == nil {
			if sk != k {
				r.Violation("raw:split-vs-stream:kind", fmt.Sprintf("input %x: Split kind %v, Stream kind %v", b, k, sk), w)
			}
			if sk != rlp.List && !bytes.Equal(stContent, content) {
				r.Violation("raw:split-vs-stream:content", fmt.Sprintf("input %x: Split content %x, Stream.Bytes %x", b, content, stContent), w)
			}
			if sk == rlp.List && ssize != uint64(len(content)) {
				r.Violation("raw:split-vs-stream:list-size", fmt.Sprintf("input %x: Split content len %d, Stream list size %d", b, len(content), ssize), w)
			}
		} else {
			checkSentinel(r, "Stream", b, stErr, w)
		}
		// Stream.Raw returns the whole first value (header re-created) = b minus rest.
		if splitErr == nil {
			raw, rerr := rlp.NewStream(bytes.NewReader(b), 0).Raw()
			if rerr != nil || !bytes.Equal(raw, b[:len(b)-len(rest)]) {
				r.Violation("raw:stream-raw:boundaries", fmt.Sprintf("input %x: Stream.Raw = %x, %v; Split says value is %x", b, raw, rerr, b[:len(b)-len(rest)]), w)
			}
		}

		// ---- SplitUint64 vs Stream.Uint64 vs reference
		var refU uint64
		refUok := refErr == nil && !refList && n <= 8 && (n == 0 || b[off] != 0)
		if refUok {
			for _, c := range b[off : off+n] {
				refU = refU<<8 | uint64(c)
			}
		}
		x, urest, uerr := rlp.SplitUint64(in)
		sx, suerr := rlp.NewStream(bytes.NewReader(b), 0).Uint64()
		ag.Count(ci, "splituint_vs_stream", 1)
		if (uerr == nil) != refUok || (suerr == nil) != refUok {
			r.Violation("raw:uint64:accept-differs", fmt.Sprintf("input %x: SplitUint64 err=%v, Stream.Uint64 err=%v, reference ok=%v", b, uerr, suerr, refUok), w)
		} else if refUok && (x != refU || sx != refU || !bytes.Equal(urest, b[off+n:])) {
			r.Violation("raw:uint64:value", fmt.Sprintf("input %x: SplitUint64=%d rest=%x Stream=%d reference=%d", b, x, urest, sx, refU), w)
		}
		if refErr == nil && !refList && n <= 8 && n > 0 && b[off] == 0 {
			// integer with leading zero: both must name it non-canonical
			if errClass(uerr) != "canon-int" || errClass(suerr) != "canon-int" {
				r.Violation("raw:uint64:leading-zero-class", fmt.Sprintf("input %x: errors %v / %v, want non-canonical integer", b, uerr, suerr), w)
			}
		}

		// ---- CountValues / SplitListValues over b taken as list content
		refCount, refCountErr := 0, error(nil)
		var refElems [][]byte
		for p := b; len(p) > 0; {
			_, o, m, e := refrlp.Header(p)
			if e != nil {
				refCountErr = e
				break
			}
			refElems = append(refElems, p[:o+m])
			p = p[o+m:]
			refCount++
		}
		cnt, cerr := rlp.CountValues(in)
		ag.Count(ci, "countvalues_calls", 1)
		if (cerr == nil) != (refCountErr == nil) || (cerr == nil && cnt != refCount) || (cerr != nil && cnt != refCount+1) {
			r.Violation("raw:countvalues", fmt.Sprintf("CountValues(%x) = %d, %v; reference %d, %v", b, cnt, cerr, refCount, refCountErr), w)
		}
		// the same walk with a Stream positioned inside a list of that content
		wrapped := refrlp.EncodeListRaw(b)
		ls := rlp.NewStream(bytes.NewReader(wrapped), 0)
		scount, serr2 := 0, error(nil)
		if _, e := ls.List(); e != nil {
			serr2 = e
		} else {
			for {
				kk, _, e := ls.Kind()
				if e == rlp.EOL {
					break
				}
				if e == nil {
					if kk == rlp.List {
						_, e = ls.Raw()
					} else {
						_, e = ls.Bytes()
					}
				}
				if e != nil {
					serr2 = e
					break
				}
				scount++
			}
		}
		if (serr2 == nil) != (cerr == nil) || scount != refCount {
			r.Violation("raw:countvalues-vs-stream", fmt.Sprintf("content %x: CountValues %d, %v; Stream walk %d, %v", b, cnt, cerr, scount, serr2), w)
		}
		elems, lverr := rlp.SplitListValues(wrapped)
		if (lverr == nil) != (refCountErr == nil) {
			r.Violation("raw:splitlistvalues:accept-differs", fmt.Sprintf("SplitListValues(%x) err=%v, reference %v", wrapped, lverr, refCountErr), w)
		} else if lverr == nil {
			same := len(elems) == len(refElems)
			for i := 0; same && i < len(elems); i++ {
				same = bytes.Equal(elems[i], refElems[i])
			}
			if !same {
				r.Violation("raw:splitlistvalues:elements", fmt.Sprintf("SplitListValues(%x) = %x, reference %x", wrapped, elems, refElems), w)
			}
			if merged, _ := rlp.MergeListValues(elems); !bytes.Equal(merged, wrapped) {
				r.Violation("raw:mergelistvalues", fmt.Sprintf("MergeListValues(SplitListValues(%x)) = %x", wrapped, merged), w)
			}
			// iterator over the same list
			it, ierr := rlp.NewListIterator(wrapped)
			if ierr != nil {
				r.Violation("raw:iterator:accept-differs", fmt.Sprintf("NewListIterator(%x): %v", wrapped, ierr), w)
			} else {
				i := 0
				for it.Next() {
					if i >= len(refElems) || !bytes.Equal(it.Value(), refElems[i]) {
						r.Violation("raw:iterator:elements", fmt.Sprintf("iterator over %x: element %d = %x", wrapped, i, it.Value()), w)
						break
					}
					i++
				}
				if it.Err() != nil || i != len(refElems) {
					r.Violation("raw:iterator:count", fmt.Sprintf("iterator over %x: %d elements, err %v; reference %d", wrapped, i, it.Err(), len(refElems)), w)
				}
			}
		}

		cls := errClass(splitErr)
		kind := "none"
		if splitErr == nil {
			kind = k.String()
		}
		ag.Eval(ci, fmt.Sprintf("raw/%s/%s/%s/uint-%s", cls, kind, mk, errClass(uerr)))
		ag.Count(ci, "raw_"+cls, 1)
	})
}

// checkAppendAndSizes compares the size helpers and AppendUint64 with the reference encoder.
func checkAppendAndSizes(r *vrt.Run, ci int, x uint64, s []byte) {
	w := map[string]any{"uint": x, "bytes": vrt.Hex(s)}
	r.Guard("sizes", w, func() {
		want := refrlp.EncodeUint(x)
		prefix := []byte{0xaa, 0xbb}
		got := rlp.AppendUint64(append([]byte{}, prefix...), x)
		if !bytes.Equal(got, append(append([]byte{}, prefix...), want...)) {
			r.Violation("raw:appenduint64", fmt.Sprintf("AppendUint64(%d) = %x, reference %x", x, got[2:], want), w)
		}
		if rlp.IntSize(x) != len(want) {
			r.Violation("raw:intsize", fmt.Sprintf("IntSize(%d) = %d, reference %d", x, rlp.IntSize(x), len(want)), w)
		}
		ws := refrlp.EncodeString(s)
		if rlp.BytesSize(s) != uint64(len(ws)) || rlp.StringSize(string(s)) != uint64(len(ws)) {
			r.Violation("raw:bytessize", fmt.Sprintf("BytesSize/StringSize(%x) = %d/%d, reference %d", s, rlp.BytesSize(s), rlp.StringSize(string(s)), len(ws)), w)
		}
		wl := refrlp.EncodeListRaw(s)
		if rlp.ListSize(uint64(len(s))) != uint64(len(wl)) {
			r.Violation("raw:listsize", fmt.Sprintf("ListSize(%d) = %d, reference %d", len(s), rlp.ListSize(uint64(len(s))), len(wl)), w)
		}
		ag.Count(ci, "size_helper_checks", 1)
	})
}
