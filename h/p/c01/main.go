// C01: RLP decoding accepts exactly the canonical encodings.
//
// Monitors (see DESIGN.md section 5, C01):
//
//	(a) value -> EncodeToBytes/Encode/EncodeToReader == reference model encoding, and decoding it
//	    (DecodeBytes, Decode over a buffered and an unbuffered reader, into a fresh and into a
//	    used value) gives a value with the same reference encoding;
//	(b) byte string accepted for a typed target re-encodes to the identical bytes;
//	(c) the generic target (interface{}) accepts exactly the language of refrlp and yields the
//	    same tree;
//	(d) Split/SplitString/SplitList/SplitUint64/CountValues/SplitListValues/Iterator/
//	    AppendUint64/size helpers agree with Stream.Kind/Bytes/List/Raw/Uint64 and with refrlp
//	    (file raw.go);
//	(e) no panic (r.Guard around every call into package rlp);
//	plus EncoderBuffer programs against refrlp and a phase where 16 goroutines hit the same
//	never-seen-before types simultaneously (type cache / encoder buffer pool; race variant).
package main

import (
	"bytes"
	"errors"
	"fmt"
	"io"
	"math/big"
	"math/rand"
	"os"
	"reflect"
	"runtime/pprof"
	"sync"
	"testing/iotest"

	"github.com/ethereum/go-ethereum/rlp"
	"github.com/holiman/uint256"

	"verif/lib/agg"
	"verif/lib/refrlp"
	"verif/lib/vrt"
)

func main() { vrt.Main("C01", run) }

// ag batches counters/evaluations (sharded; flushed before the coverage obligations).
var ag *agg.Agg

// profile starts a CPU profile when VERIF_CPUPROFILE names a file (harness tuning only).
func profile() func() {
	path := os.Getenv("VERIF_CPUPROFILE")
	if path == "" {
		return func() {}
	}
	f, err := os.Create(path)
	if err != nil {
		return func() {}
	}
	pprof.StartCPUProfile(f)
	return func() { pprof.StopCPUProfile(); f.Close() }
}

func refClass(err error) string {
	switch {
	case err == nil:
		return "ok"
	case errors.Is(err, refrlp.ErrNonCanonSize):
		return "noncanon-size"
	case errors.Is(err, refrlp.ErrNonCanonByte):
		return "noncanon-byte"
	case errors.Is(err, refrlp.ErrTrailing):
		return "trailing"
	case errors.Is(err, refrlp.ErrShort):
		return "short"
	case errors.Is(err, refrlp.ErrEmpty):
		return "empty"
	}
	return "other"
}

func headClass(enc []byte) string {
	if len(enc) == 0 {
		return "empty"
	}
	switch p := enc[0]; {
	case p < 0x80:
		return "byte"
	case p <= 0xb7:
		return "str"
	case p <= 0xbf:
		return "longstr"
	case p <= 0xf7:
		return "list"
	}
	return "longlist"
}

// ifaceToItem converts the result of decoding into interface{}.
func ifaceToItem(v interface{}) (*refrlp.Item, bool) {
	switch x := v.(type) {
	case []byte:
		return refrlp.Str(x), true
	case []interface{}:
		it := refrlp.List()
		for _, e := range x {
			c, ok := ifaceToItem(e)
			if !ok {
				return nil, false
			}
			it.List = append(it.List, c)
		}
		return it, true
	}
	return nil, false
}

// ---------------------------------------------------------------------------------------
// (a) round trip of a generated value

func roundtrip(r *vrt.Run, ci int, rng *rand.Rand, t reflect.Type, v reflect.Value, badNil bool, phase string) (enc []byte) {
	want := model(v)
	w := map[string]any{"type": t.String(), "reference_encoding": vrt.Hex(want), "phase": phase}
	kn := kindName(t)
	r.Guard("roundtrip", w, func() {
		var val interface{}
		if rng.Intn(2) == 0 {
			val = v.Addr().Interface()
		} else {
			val = v.Interface()
		}
		got, err := rlp.EncodeToBytes(val)
		if err != nil {
			r.Violation("encode:error:"+kn, fmt.Sprintf("EncodeToBytes(%s): %v", t, err), w)
			return
		}
		if !bytes.Equal(got, want) {
			w["encoded"] = vrt.Hex(got)
			r.Violation("encode:differs-from-reference:"+kn, fmt.Sprintf("EncodeToBytes(%s) = %x, reference %x", t, got, want), w)
			return
		}
		enc = got
		var buf bytes.Buffer
		if err := rlp.Encode(&buf, val); err != nil || !bytes.Equal(buf.Bytes(), want) {
			r.Violation("encode:writer-path-differs:"+kn, fmt.Sprintf("Encode(w, %s) = %x (%v), reference %x", t, buf.Bytes(), err, want), w)
		}
		size, rd, err := rlp.EncodeToReader(val)
		if err == nil {
			var all []byte
			if rng.Intn(2) == 0 {
				all, err = io.ReadAll(iotest.OneByteReader(rd))
			} else {
				all, err = io.ReadAll(rd)
			}
			if err != nil || size != len(want) || !bytes.Equal(all, want) {
				r.Violation("encode:reader-path-differs:"+kn, fmt.Sprintf("EncodeToReader(%s) = size %d, %x (%v), reference %x", t, size, all, err, want), w)
			}
		} else {
			r.Violation("encode:reader-path-differs:"+kn, fmt.Sprintf("EncodeToReader(%s): %v", t, err), w)
		}
		ag.Count(ci, "encode_vs_reference", 3)

		if badNil {
			// nil pointer whose written form (empty value) is not an encoding of the element
			// type; documented to need the "nil" tag. Only "no panic" is judged.
			ptr := reflect.New(t)
			rlp.DecodeBytes(enc, ptr.Interface())
			ag.Count(ci, "nil_pointer_undecodable_skipped", 1)
			return
		}
		type decoder struct {
			name string
			f    func(into interface{}) error
		}
		decs := []decoder{
			{"DecodeBytes", func(into interface{}) error { return rlp.DecodeBytes(enc, into) }},
			{"Decode-bytes.Reader", func(into interface{}) error { return rlp.Decode(bytes.NewReader(enc), into) }},
			{"Decode-unbuffered", func(into interface{}) error { return rlp.Decode(iotest.OneByteReader(bytes.NewReader(enc)), into) }},
			{"Stream-limit", func(into interface{}) error {
				return rlp.NewStream(iotest.HalfReader(bytes.NewReader(enc)), uint64(len(enc))).Decode(into)
			}},
		}
		for i, d := range decs {
			ptr := reflect.New(t)
			reused := false
			if i == 0 && rng.Intn(3) == 0 {
				// decode into a value that already holds other data (pointers/slices are reused)
				var dummy bool
				ptr.Elem().Set(genValue(rng, t, &dummy))
				reused = true
			}
			if err := d.f(ptr.Interface()); err != nil {
				w["decoder"] = d.name
				r.Violation("roundtrip:decode-rejects-own-encoding:"+kn, fmt.Sprintf("%s(%x) into %s: %v", d.name, enc, t, err), w)
				return
			}
			if back := model(ptr.Elem()); !bytes.Equal(back, want) {
				w["decoder"] = d.name
				w["decoded_reference_encoding"] = vrt.Hex(back)
				fp := "roundtrip:value-differs:" + kn
				if reused {
					fp = "roundtrip:value-differs-into-used-value:" + kn
				}
				r.Violation(fp, fmt.Sprintf("%s(%x) into %s gives a value encoding to %x", d.name, enc, t, back), w)
				return
			}
			ag.Count(ci, "decode_roundtrips", 1)
		}
	})
	if r.WantSample() && len(want) > 3 && len(want) < 80 {
		r.Sample(map[string]any{"type": t.String(), "encoding": vrt.Hex(want)})
	}
	ag.Eval(ci, fmt.Sprintf("rt/%s/%s/badnil=%v", kn, headClass(want), badNil))
	return enc
}

// ---------------------------------------------------------------------------------------
// (b) typed acceptance => identical re-encoding

func checkTyped(r *vrt.Run, ci int, b []byte, t reflect.Type, mk mutKind) {
	w := map[string]any{"type": t.String(), "input": vrt.Hex(b), "mutation": mk.String()}
	kn := kindName(t)
	r.Guard("typed", w, func() {
		ptr := reflect.New(t)
		err := rlp.DecodeBytes(append([]byte{}, b...), ptr.Interface())
		cls := errClass(err)
		if err == nil {
			enc, eerr := rlp.EncodeToBytes(ptr.Interface())
			if eerr != nil || !bytes.Equal(enc, b) {
				_, rerr := refrlp.Decode(b)
				w["reencoded"] = vrt.Hex(enc)
				fp := "typed:accepted-but-reencodes-differently:" + kn
				if rerr != nil {
					fp = "typed:accepts-noncanonical-rlp:" + refClass(rerr) + ":" + kn
				}
				r.Violation(fp, fmt.Sprintf("DecodeBytes(%x) into %s accepted, re-encodes to %x (%v)", b, t, enc, eerr), w)
			}
			// the reference model of the decoded value must be the input as well
			if m := model(ptr.Elem()); !bytes.Equal(m, b) {
				w["model"] = vrt.Hex(m)
				r.Violation("typed:accepted-value-has-other-encoding:"+kn, fmt.Sprintf("DecodeBytes(%x) into %s accepted, value's reference encoding is %x", b, t, m), w)
			}
			ag.Count(ci, "typed_accepted_and_reencoded", 1)
		} else {
			ag.Count(ci, "typed_rejected", 1)
			ag.Count(ci, "typed_err_"+cls, 1)
		}
		ag.Eval(ci, fmt.Sprintf("typed/%s/%s/%s", cls, kn, mk))
	})
}

// ---------------------------------------------------------------------------------------
// (c) generic target == refrlp language

func checkGeneric(r *vrt.Run, ci int, b []byte, mk mutKind) {
	w := map[string]any{"input": vrt.Hex(b), "mutation": mk.String()}
	r.Guard("generic", w, func() {
		var v interface{}
		err := rlp.DecodeBytes(append([]byte{}, b...), &v)
		it, rerr := refrlp.Decode(b)
		cls := errClass(err)
		switch {
		case err == nil && rerr != nil:
			r.Violation("generic:accepts-noncanonical:"+refClass(rerr), fmt.Sprintf("DecodeBytes(%x, interface{}) accepted; reference: %v", b, rerr), w)
		case err != nil && rerr == nil:
			r.Violation("generic:rejects-canonical:"+cls, fmt.Sprintf("DecodeBytes(%x, interface{}): %v; reference accepts", b, err), w)
		case err == nil:
			got, ok := ifaceToItem(v)
			if !ok || !refrlp.Equal(got, it) {
				r.Violation("generic:tree-differs", fmt.Sprintf("DecodeBytes(%x, interface{}) yields a different tree than the reference", b), w)
			}
			enc, eerr := rlp.EncodeToBytes(v)
			if eerr != nil || !bytes.Equal(enc, b) {
				r.Violation("generic:reencode-differs", fmt.Sprintf("interface{} value decoded from %x re-encodes to %x (%v)", b, enc, eerr), w)
			}
			ag.Count(ci, "generic_accepted_and_reencoded", 1)
		default:
			ag.Count(ci, "generic_rejected_by_both", 1)
			ag.Count(ci, "generic_err_"+cls, 1)
		}
		ag.Eval(ci, fmt.Sprintf("generic/%s/ref-%s/%s", cls, refClass(rerr), mk))
	})
}

// ---------------------------------------------------------------------------------------
// EncoderBuffer programs

func emit(rng *rand.Rand, w rlp.EncoderBuffer, it *refrlp.Item, ops map[string]int) {
	if it.IsList {
		if rng.Intn(6) == 0 {
			w.Write(refrlp.Encode(it))
			ops["raw"]++
			return
		}
		off := w.List()
		for _, c := range it.List {
			emit(rng, w, c, ops)
		}
		w.ListEnd(off)
		ops["list"]++
		return
	}
	s := it.Str
	intLike := len(s) == 0 || s[0] != 0
	switch c := rng.Intn(7); {
	case c == 0 && intLike && len(s) <= 8:
		var x uint64
		for _, b := range s {
			x = x<<8 | uint64(b)
		}
		w.WriteUint64(x)
		ops["uint64"]++
	case c == 1 && intLike:
		w.WriteBigInt(new(big.Int).SetBytes(s))
		ops["bigint"]++
	case c == 2 && intLike && len(s) <= 32:
		w.WriteUint256(new(uint256.Int).SetBytes(s))
		ops["uint256"]++
	case c == 3 && (len(s) == 0 || (len(s) == 1 && s[0] == 1)):
		w.WriteBool(len(s) == 1)
		ops["bool"]++
	case c == 4:
		w.WriteString(string(s))
		ops["string"]++
	case c == 5:
		w.Write(refrlp.EncodeString(s))
		ops["raw"]++
	default:
		w.WriteBytes(s)
		ops["bytes"]++
	}
}

func checkEncBuffer(r *vrt.Run, ci int, rng *rand.Rand) {
	it := genItem(rng, 3)
	want := refrlp.Encode(it)
	w := map[string]any{"reference_encoding": vrt.Hex(want)}
	ops := map[string]int{}
	r.Guard("encbuffer", w, func() {
		var sink bytes.Buffer
		mode := rng.Intn(3)
		var eb rlp.EncoderBuffer
		if mode == 2 {
			eb = rlp.NewEncoderBuffer(&sink)
		} else {
			eb = rlp.NewEncoderBuffer(nil)
		}
		emit(rng, eb, it, ops)
		var got []byte
		switch mode {
		case 0:
			if eb.Size() != len(want) {
				r.Violation("encbuffer:size", fmt.Sprintf("EncoderBuffer.Size() = %d, reference %d", eb.Size(), len(want)), w)
			}
			got = eb.ToBytes()
			eb.Flush()
		case 1:
			got = eb.AppendToBytes([]byte{1, 2, 3})
			if !bytes.HasPrefix(got, []byte{1, 2, 3}) {
				r.Violation("encbuffer:append-prefix", "AppendToBytes lost the prefix", w)
			}
			got = got[min(3, len(got)):]
			eb.Flush()
		default:
			if err := eb.Flush(); err != nil {
				r.Violation("encbuffer:flush", err.Error(), w)
			}
			got = sink.Bytes()
		}
		if !bytes.Equal(got, want) {
			w["got"] = vrt.Hex(got)
			r.Violation("encbuffer:differs-from-reference", fmt.Sprintf("EncoderBuffer program produced %x, reference %x", got, want), w)
		}
	})
	for k, n := range ops {
		ag.Count(ci, "encbuffer_op_"+k, n)
	}
	ag.Eval(ci, fmt.Sprintf("encbuf/%s/nodes%d", headClass(want), min(countNodes(it), 12)))
}

// ---------------------------------------------------------------------------------------

func run(r *vrt.Run) {
	r.Rule("types: random reflect types over uint8..64/uint, (*)big.Int, (*)uint256.Int, bool, []byte, [0|1|2|20|32]byte, string, RawValue, slices, arrays, structs (depth<=3), pointers; values boundary-biased (0,1,0x7f,0x80,2^8k+-1, 55/56/255/256/65535/65536-byte strings, nil pointers/slices). byte strings: valid encodings, single-point structural defects (long-form header for short payload, leading zero in length, 0x81-wrapped single byte, header length +-1, leading zero in integer, string<->list header), byte edits (truncate/append/flip/insert/delete) and random strings <= 300 bytes. non-trivial signature = monitor x decoder result class (ok / error sentinel) x target kind x mutation kind (round trips: target kind x header class)")

	stop := profile()
	defer stop()
	ag = agg.New(r)
	shrink := 1
	if r.Race() {
		shrink = 10
	}
	nTypes := r.N(200, 2000) / shrink
	nValues := r.N(200, 500)
	nStrings := r.N(150000, 5000000) / shrink
	nEncBuf := r.N(20000, 400000) / shrink
	nShared := r.N(60, 600) / min(shrink, 3)

	// ---- type pool
	types := make([]reflect.Type, nTypes)
	for i := range types {
		g := &typeGen{rng: r.Rand("types", i), uniq: fmt.Sprintf("s%dt%d", r.Seed, i)}
		if i < 40 {
			types[i] = g.leaf() // make sure every leaf kind is a top-level target too
		} else {
			types[i] = g.typ(3)
		}
	}
	kinds := map[string]bool{}
	for _, t := range types {
		kinds[kindName(t)] = true
	}
	r.Extra("type_pool_size", len(types))
	r.Extra("type_pool_kinds", len(kinds))

	// ---- (a) round trips; encodings are kept as mutation seeds
	type seedEnc struct {
		t   reflect.Type
		enc []byte
	}
	perType := make([][]seedEnc, nTypes) // slot i is written by the one worker handling type i
	vrt.Par(nTypes, 0, func(i int) {
		t := types[i]
		rng := r.Rand("values", i)
		r.Case("roundtrip type #%d %s", i, t)
		for j := 0; j < nValues; j++ {
			bad := false
			v := genValue(rng, t, &bad)
			enc := roundtrip(r, i, rng, t, v, bad, "values")
			if enc != nil && !bad && j%8 == 0 && len(enc) <= 400 {
				perType[i] = append(perType[i], seedEnc{t, enc})
			}
		}
	})
	var seeds []seedEnc
	for _, s := range perType {
		seeds = append(seeds, s...)
	}
	if len(seeds) == 0 {
		r.Inconclusive("no typed encodings available as mutation seeds")
		return
	}
	r.Extra("typed_mutation_seeds", len(seeds))

	// ---- (b)(c)(d) byte strings
	vrt.Par(nStrings, 0, func(i int) {
		rng := r.Rand("bytes", i)
		var (
			b      []byte
			mk     mutKind
			origin reflect.Type
		)
		switch c := rng.Intn(10); {
		case c == 0: // valid generic encoding
			b, mk = refrlp.Encode(genItem(rng, 3)), mNone
		case c <= 3: // defect in a generic tree
			it := genItem(rng, 3)
			b, mk = mutate(rng, refrlp.Encode(it), it)
		case c <= 7: // defect in the encoding of a typed value
			s := seeds[rng.Intn(len(seeds))]
			origin = s.t
			it, err := refrlp.Decode(s.enc)
			if err != nil {
				it = nil // RawValue content may be anything; byte-level edits only
			}
			b, mk = mutate(rng, s.enc, it)
		default:
			b, mk = randomString(rng), mRandom
		}
		r.Case("bytes #%d mutation=%s input=%x", i, mk, b)
		ag.Count(i, "mutation_"+mk.String(), 1)
		if mk.NonCanonByConstruction() {
			if _, err := refrlp.Decode(b); err == nil {
				r.Inconclusive("harness: %s mutant %x is accepted by the reference", mk, b)
			}
		}
		checkGeneric(r, i, b, mk)
		checkRaw(r, i, b, mk)
		if origin != nil {
			checkTyped(r, i, b, origin, mk)
		}
		checkTyped(r, i, b, types[rng.Intn(len(types))], mk)
		if i%16 == 0 {
			checkAppendAndSizes(r, i, genUint(rng, 64), genBytes(rng, false))
		}
		if i < 3 {
			r.Sample(map[string]any{"input": vrt.Hex(b), "mutation": mk.String()})
		}
	})

	// ---- EncoderBuffer programs
	vrt.Par(nEncBuf, 0, func(i int) {
		rng := r.Rand("encbuf", i)
		r.Case("encbuffer program #%d", i)
		checkEncBuffer(r, i, rng)
	})

	// ---- shared new types: 16 goroutines start on the same never-used type at once
	const workers = 16
	for i := 0; i < nShared; i++ {
		g := &typeGen{rng: r.Rand("sharedtypes", i), uniq: fmt.Sprintf("s%dx%d", r.Seed, i)}
		t := g.structOf(3)
		r.Case("shared type #%d %s", i, t)
		start := make(chan struct{})
		var wg sync.WaitGroup
		for gi := 0; gi < workers; gi++ {
			wg.Add(1)
			go func(gi int) {
				defer wg.Done()
				rng := r.Rand("shared", i*workers+gi)
				bad := false
				v := genValue(rng, t, &bad)
				<-start
				for k := 0; k < 4; k++ {
					enc := roundtrip(r, i*workers+gi, rng, t, v, bad, "shared")
					if enc != nil && !bad {
						it, _ := refrlp.Decode(enc)
						b, mk := mutate(rng, enc, it)
						checkTyped(r, i*workers+gi, b, t, mk)
					}
					bad = false
					v = genValue(rng, t, &bad)
				}
				ag.Count(gi, "shared_type_goroutine_runs", 1)
			}(gi)
		}
		close(start)
		wg.Wait()
	}

	ag.Flush()
	r.Require("decode_roundtrips", 1000)
	r.Require("typed_accepted_and_reencoded", 100)
	r.Require("typed_rejected", 1000)
	r.Require("generic_accepted_and_reencoded", 100)
	r.Require("generic_rejected_by_both", 1000)
	r.Require("split_vs_stream", 1000)
	r.Require("shared_type_goroutine_runs", 100)
	for m := mLongFormShort; m < nMut; m++ {
		r.Require("mutation_"+m.String(), 50)
	}
	r.Assume("refrlp (h/lib/refrlp, ~150 lines, written from the RLP definition) is the definition of canonical RLP")
	r.Assume("value->encoding model (types.go: model) transcribes rlp/doc.go: integers minimal big-endian, bool 0x01/0x80, nil pointer = empty string/list by element kind; nil slice == empty slice and nil pointer == pointer to zero value are the documented identifications")
}
