package main

import (
	"errors"
	"fmt"
	"math/big"
	"math/rand"
	"sort"
	"strings"

	"github.com/ethereum/go-ethereum/common"
	"github.com/ethereum/go-ethereum/core"
	"github.com/ethereum/go-ethereum/core/txpool"
	"github.com/ethereum/go-ethereum/core/txpool/legacypool"
	"github.com/ethereum/go-ethereum/core/types"
	"github.com/holiman/uint256"
)

// ---------------------------------------------------------------- error classes

func classify(err error) string {
	switch {
	case err == nil:
		return "ok"
	case errors.Is(err, txpool.ErrAlreadyKnown):
		return "known"
	case errors.Is(err, txpool.ErrReplaceUnderpriced):
		return "replace-underpriced"
	case errors.Is(err, txpool.ErrUnderpriced):
		return "underpriced"
	case errors.Is(err, txpool.ErrTxGasPriceTooLow):
		return "tip-too-low"
	case errors.Is(err, core.ErrNonceTooLow):
		return "nonce-low"
	case errors.Is(err, core.ErrInsufficientFunds):
		return "funds"
	case errors.Is(err, txpool.ErrGasLimit):
		return "gaslimit"
	case errors.Is(err, core.ErrIntrinsicGas), errors.Is(err, core.ErrFloorDataGas):
		return "intrinsic"
	case errors.Is(err, legacypool.ErrTxPoolOverflow):
		return "overflow"
	case errors.Is(err, legacypool.ErrFutureReplacePending):
		return "future-replace-pending"
	case errors.Is(err, legacypool.ErrOutOfOrderTxFromDelegated):
		return "delegated-gap"
	case errors.Is(err, txpool.ErrInflightTxLimitReached):
		return "inflight"
	case errors.Is(err, legacypool.ErrAuthorityReserved):
		return "authority"
	case errors.Is(err, core.ErrTipAboveFeeCap):
		return "tip-above-cap"
	case errors.Is(err, txpool.ErrOversizedData):
		return "oversized"
	case strings.Contains(err.Error(), "at least one authorization"):
		return "empty-auth"
	}
	return "other:" + err.Error()
}

func randFilter(rng *rand.Rand) txpool.PendingFilter {
	var f txpool.PendingFilter
	if rng.Intn(2) == 0 {
		f.MinTip = uint256.NewInt(uint64(pick(rng, feeLadder)))
		f.BaseFee = uint256.NewInt(uint64(pick(rng, baseFeeLadder)))
	}
	if rng.Intn(3) == 0 {
		f.GasLimitCap = 50000
	}
	return f
}

// slotsOf recomputes the number of 32 KiB slots of a transaction independently.
func slotsOf(tx *types.Transaction) int { return int((tx.Size() + 32*1024 - 1) / (32 * 1024)) }

// ---------------------------------------------------------------- admission model

// mstate is the naive model's view of the pool during one Add call. It is (re)built from the
// snapshot taken before the call; within a batch it is advanced by the model's own decisions
// (the real pool inserts a batch under one lock hold and promotes only afterwards).
type mstate struct {
	h        *hist
	pend     map[common.Address]map[uint64]*types.Transaction
	queue    map[common.Address]map[uint64]*types.Transaction
	all      map[common.Hash]bool
	startAll map[common.Hash]bool
	slots    int
	pnonce   map[common.Address]uint64 // raw pending-nonce map of the pool
	stale    bool                      // an undetermined (pool-full) insertion happened: model state unknown
}

func newMstate(h *hist, s *legacypool.VerifSnapshot) *mstate {
	m := &mstate{h: h, pend: map[common.Address]map[uint64]*types.Transaction{}, queue: map[common.Address]map[uint64]*types.Transaction{},
		all: map[common.Hash]bool{}, startAll: map[common.Hash]bool{}, pnonce: s.PendingNonces, slots: 0}
	for a, l := range s.Pending {
		m.pend[a] = map[uint64]*types.Transaction{}
		for _, tx := range l.Txs {
			m.pend[a][tx.Nonce()] = tx
		}
	}
	for a, l := range s.Queue {
		m.queue[a] = map[uint64]*types.Transaction{}
		for _, tx := range l.Txs {
			m.queue[a][tx.Nonce()] = tx
		}
	}
	for hash, tx := range s.All {
		m.all[hash] = true
		m.startAll[hash] = true
		m.slots += slotsOf(tx)
	}
	return m
}

func (m *mstate) pendingNonce(a common.Address) uint64 {
	if n, ok := m.pnonce[a]; ok {
		return n
	}
	return m.h.state(a).Nonce
}

func (m *mstate) hasAuth(a common.Address) bool {
	for _, set := range []map[common.Address]map[uint64]*types.Transaction{m.pend, m.queue} {
		for _, l := range set {
			for _, tx := range l {
				for _, au := range tx.SetCodeAuthorities() {
					if au == a {
						return true
					}
				}
			}
		}
	}
	return false
}

// intrinsic recomputes the minimal gas of the workload's transactions (no access lists, data
// of zero bytes only, never contract creation): max of EIP-2028 intrinsic gas and the
// EIP-7623 floor.
func intrinsic(tx *types.Transaction) uint64 {
	var z, nz uint64
	for _, b := range tx.Data() {
		if b == 0 {
			z++
		} else {
			nz++
		}
	}
	g := 21000 + 25000*uint64(len(tx.SetCodeAuthorizations())) + 4*z + 16*nz
	floor := 21000 + 10*(z+4*nz)
	return max(g, floor)
}

// replaceOK is the property's replacement rule: both the fee cap and the tip must strictly
// exceed the old values and reach old*(100+bump)/100 (integer division).
func replaceOK(old, tx *types.Transaction) bool {
	thr := func(v *big.Int) *big.Int {
		x := new(big.Int).Mul(v, big.NewInt(100+priceBump))
		return x.Div(x, big.NewInt(100))
	}
	if tx.GasFeeCap().Cmp(old.GasFeeCap()) <= 0 || tx.GasTipCap().Cmp(old.GasTipCap()) <= 0 {
		return false
	}
	return tx.GasFeeCap().Cmp(thr(old.GasFeeCap())) >= 0 && tx.GasTipCap().Cmp(thr(old.GasTipCap())) >= 0
}

// basics mirrors the stateless checks (ValidateTxBasics) in the order of the code; "" = passes.
func (m *mstate) basics(tx *types.Transaction) string {
	h := m.h
	head := h.ch.headBlk().header
	switch {
	case tx.Size() > 4*32*1024:
		return "oversized"
	case head.GasLimit < tx.Gas():
		return "gaslimit"
	case tx.GasFeeCap().Cmp(tx.GasTipCap()) < 0:
		return "tip-above-cap"
	case tx.Gas() < intrinsic(tx):
		return "intrinsic"
	case tx.GasTipCap().Cmp(big.NewInt(h.gasTip)) < 0:
		return "tip-too-low"
	case tx.Type() == types.SetCodeTxType && len(tx.SetCodeAuthorizations()) == 0:
		return "empty-auth"
	}
	return ""
}

// predict returns the model's verdict for one transaction of an Add call: the expected class
// ("ok" or an error class) or "?" when the model cannot decide (pool-full path, whose outcome
// depends on the price heaps' internal arrangement). replaced reports whether an accepted
// transaction took the place of a pooled one with the same nonce.
func (m *mstate) predict(tx *types.Transaction) (class string, replaced bool) {
	h := m.h
	hash := tx.Hash()
	if m.startAll[hash] {
		return "known", false
	}
	if c := m.basics(tx); c != "" {
		return c, false
	}
	if m.stale {
		return "?stale", false
	}
	if m.all[hash] {
		return "known", false
	}
	from, _ := types.Sender(h.e.signer, tx)
	st := h.state(from)
	if st.Nonce > tx.Nonce() {
		return "nonce-low", false
	}
	cost := tx.Cost()
	if st.Balance.Cmp(cost) < 0 {
		return "funds", false
	}
	spent := new(big.Int)
	for _, p := range m.pend[from] {
		spent.Add(spent, p.Cost())
	}
	need := new(big.Int).Add(spent, cost)
	if prev := m.pend[from][tx.Nonce()]; prev != nil {
		need.Sub(need, prev.Cost())
	}
	if st.Balance.Cmp(need) < 0 {
		return "funds", false
	}
	// EIP-7702 admission rules
	if st.Delegated || m.hasAuth(from) {
		if len(m.pend[from]) == 0 {
			if m.pendingNonce(from) != tx.Nonce() {
				return "delegated-gap", false
			}
		} else if m.pend[from][tx.Nonce()] == nil {
			return "inflight", false
		}
	}
	for _, au := range tx.SetCodeAuthorities() {
		if len(m.pend[au])+len(m.queue[au]) > 1 {
			return "authority", false
		}
	}
	// pool-full path: outcome depends on heap internals
	if m.slots+slotsOf(tx) > globalSlots+globalQueue {
		m.stale = true
		return "?", false
	}
	if old := m.pend[from][tx.Nonce()]; old != nil {
		if !replaceOK(old, tx) {
			return "replace-underpriced", false
		}
		m.swap(m.pend, from, old, tx)
		return "ok", true
	}
	if old := m.queue[from][tx.Nonce()]; old != nil {
		if !replaceOK(old, tx) {
			return "replace-underpriced", false
		}
		m.swap(m.queue, from, old, tx)
		return "ok", true
	}
	m.swap(m.queue, from, nil, tx)
	return "ok", false
}

func (m *mstate) swap(set map[common.Address]map[uint64]*types.Transaction, from common.Address, old, tx *types.Transaction) {
	if old != nil {
		delete(m.all, old.Hash())
		m.slots -= slotsOf(old)
	}
	if set[from] == nil {
		set[from] = map[uint64]*types.Transaction{}
	}
	set[from][tx.Nonce()] = tx
	m.all[tx.Hash()] = true
	m.slots += slotsOf(tx)
}

// fullPathClasses are the outcomes the code may produce when the pool is full.
var fullPathClasses = map[string]bool{"ok": true, "underpriced": true, "overflow": true, "future-replace-pending": true, "replace-underpriced": true, "known": true}

// opAdd performs one synchronous Add and judges it.
func (h *hist) opAdd(txs []*types.Transaction) {
	r := h.r
	pre := h.prev
	m := newMstate(h, pre)
	errs := h.pool.Add(txs, true)
	if len(txs) > 1 {
		r.Count("op_add_batch", 1)
	} else {
		r.Count("op_add_single", 1)
	}
	type accepted struct {
		tx       *types.Transaction
		from     common.Address
		replaced bool
		determ   bool
	}
	var acc []accepted
	processed := map[common.Address]bool{}
	allDeterminate := true
	judging := true
	for i, tx := range txs {
		got := classify(errs[i])
		want, replaced := "?", false
		if judging {
			want, replaced = m.predict(tx)
		}
		h.logf("add[%d/%d] %s -> %s (model %s)", i+1, len(txs), h.txName(tx), got, want)
		r.Count("add_result_"+strings.SplitN(got, ":", 2)[0], 1)
		from, _ := types.Sender(h.e.signer, tx)
		if tx.Type() == types.SetCodeTxType && got == "ok" {
			h.fSetCode = true
		}
		switch got {
		case "inflight", "delegated-gap", "authority":
			h.fDelegRej = true
		case "funds":
			h.fFundsRej = true
		}
		if slotsOf(tx) > 1 && got == "ok" {
			h.fMulti = true
		}
		if strings.HasPrefix(got, "other:") {
			r.Count("add_unclassified", 1)
		}
		if want == "?stale" {
			allDeterminate = false
			r.Count("add_after_undetermined", 1)
			if got == "ok" {
				acc = append(acc, accepted{tx, from, false, false})
			}
			continue
		}
		if want == "?" {
			allDeterminate = false
			r.Count("add_undetermined", 1)
			if !fullPathClasses[got] && judging {
				// even on the pool-full path only a few outcomes exist
				h.viol("admission:full-path-class", fmt.Sprintf("pool-full insertion of %s returned %s", h.txName(tx), got))
			}
			if got == "ok" {
				acc = append(acc, accepted{tx, from, false, false})
				h.fEvict = true
				r.Count("add_ok_poolfull", 1)
			}
			continue
		}
		r.Count("add_judged", 1)
		switch {
		case got == want:
			if got == "ok" {
				acc = append(acc, accepted{tx, from, replaced, true})
				if replaced {
					h.fReplace = true
					r.Count("replacements_accepted", 1)
				} else {
					processed[from] = true
				}
			}
			if got == "replace-underpriced" {
				r.Count("replacements_rejected", 1)
			}
		case got == "ok":
			h.viol("admission:accepted-invalid:"+want, fmt.Sprintf("Add accepted %s, model expects rejection (%s)", h.txName(tx), want))
			judging = false
			allDeterminate = false
		case want == "ok":
			h.viol("admission:rejected-valid:"+strings.SplitN(got, ":", 2)[0], fmt.Sprintf("Add rejected %s with %q, model expects acceptance", h.txName(tx), got))
			judging = false
			allDeterminate = false
		default:
			// both reject, different class: recorded, not judged (the property does not fix classes)
			r.Count("add_class_mismatch", 1)
			h.logf("class mismatch: got %s want %s", got, want)
		}
	}
	staleEntry := map[common.Hash]bool{}
	for _, l := range [][]common.Hash{pre.Urgent, pre.Floating} {
		for _, hash := range l {
			if _, live := pre.All[hash]; !live {
				staleEntry[hash] = true
			}
		}
	}
	for _, a := range acc {
		if staleEntry[a.tx.Hash()] {
			h.dupRisk = true // re-added while its stale price-heap entry still exists
			r.Count("readded_with_stale_heap_entry", 1)
		}
	}
	// Add runs a maintenance cycle only if some transaction passed the lock-free pre-checks
	// (unknown hash and stateless validity); otherwise it returns early.
	cycle := false
	for _, tx := range txs {
		if !m.startAll[tx.Hash()] && m.basics(tx) == "" {
			cycle = true
		}
	}
	if !cycle {
		r.Count("add_without_cycle", 1)
	}
	post := h.check("add", cycle, pre, processed)
	h.dupRisk = false
	h.prev = post
	if post == nil {
		return
	}
	// An accepted transaction must still be pooled after the maintenance cycle unless a limit
	// can have removed it or a later transaction of the batch replaced it.
	if allDeterminate {
		prePending, preQueue := 0, 0
		for _, l := range pre.Pending {
			prePending += len(l.Txs)
		}
		for _, l := range pre.Queue {
			preQueue += len(l.Txs)
		}
		for i, a := range acc {
			if _, ok := post.All[a.tx.Hash()]; ok {
				continue
			}
			superseded := false
			for _, b := range acc[i+1:] {
				if b.from == a.from && b.tx.Nonce() == a.tx.Nonce() {
					superseded = true
				}
			}
			perAcct := len(acc)
			if l := pre.Queue[a.from]; l != nil {
				perAcct += len(l.Txs)
			}
			limitPossible := prePending+preQueue+len(acc) > globalSlots || preQueue+len(acc) > globalQueue || perAcct > accountQueue
			if !superseded && !limitPossible {
				h.viol("admission:accepted-vanished", fmt.Sprintf("%s was accepted but is not pooled after the maintenance cycle although no limit can apply", h.txName(a.tx)))
			}
		}
	}
}

// ---------------------------------------------------------------- invariants

func hashesOf(txs []*types.Transaction) []common.Hash {
	out := make([]common.Hash, len(txs))
	for i, tx := range txs {
		out[i] = tx.Hash()
	}
	return out
}

func sameHashes(a, b []common.Hash) bool {
	if len(a) != len(b) {
		return false
	}
	for i := range a {
		if a[i] != b[i] {
			return false
		}
	}
	return true
}

// check takes a snapshot and evaluates every invariant. maint tells that a full maintenance
// cycle (runReorg) has just completed; pre is the snapshot before the operation (may be nil);
// processed is the set of accounts known to have gone through promoteExecutables in this cycle
// (allProcessed = every account).
func (h *hist) check(op string, maint bool, pre *legacypool.VerifSnapshot, processed map[common.Address]bool) *legacypool.VerifSnapshot {
	r := h.r
	s := h.pool.VerifSnapshot()
	hd := h.ch.headBlk()
	r.Count("snapshots_checked", 1)
	all := processed != nil && len(processed) == 0 && maint && (op != "add")

	if s.Head == nil || s.Head.Hash() != hd.header.Hash() {
		h.viol("head-mismatch", fmt.Sprintf("after %s the pool's head is not the chain head", op))
	}
	gasLimit := hd.header.GasLimit
	stOf := func(a common.Address) acct {
		if st, ok := hd.state[a]; ok {
			return st
		}
		return acct{Balance: new(big.Int)}
	}
	// regressed: this operation was a head change that lowered the account's state nonce (in
	// stress histories, which have no per-operation snapshots: some reorg of the history did).
	regressed := func(a common.Address) bool {
		if pre == nil && h.stress {
			return h.everRegressed[a]
		}
		if pre != nil && pre.Head != nil && (op == "reorg") {
			if ob := h.ch.lookup(pre.Head.Hash()); ob != nil && ob.state[a].Nonce > stOf(a).Nonce {
				return true
			}
		}
		return false
	}
	// lostNotReadmitted: a transaction of the account with a nonce in [lo, hi] was reorged out by
	// that head change and is not pooled now.
	lostNotReadmitted := func(a common.Address, lo, hi uint64) bool {
		h.mu.Lock()
		defer h.mu.Unlock()
		for hash, tx := range h.lost {
			if tx.Nonce() < lo || tx.Nonce() > hi {
				continue
			}
			if from, _ := types.Sender(h.e.signer, tx); from != a {
				continue
			}
			if _, pooled := s.All[hash]; !pooled {
				return true
			}
		}
		return false
	}
	inPending := map[common.Hash]common.Address{}
	inQueue := map[common.Hash]common.Address{}
	totalPending, totalQueue := 0, 0

	listInternals := func(kind string, a common.Address, l *legacypool.VerifList) {
		if l.ItemCount != len(l.Txs) || len(l.Index) != len(l.Txs) {
			h.viol("list:index-size:"+kind, fmt.Sprintf("after %s: %s list of %s has %d items, %d flattened, %d heap entries", op, kind, h.addrName(a), l.ItemCount, len(l.Txs), len(l.Index)))
			return
		}
		sum := new(big.Int)
		var maxGas uint64
		maxCost := new(big.Int)
		for i, tx := range l.Txs {
			if l.Index[i] != tx.Nonce() {
				h.viol("list:index-content:"+kind, fmt.Sprintf("after %s: nonce heap of %s %s list is %v, transactions have other nonces", op, h.addrName(a), kind, l.Index))
				break
			}
			if i > 0 && l.Txs[i-1].Nonce() >= tx.Nonce() {
				h.viol("list:order:"+kind, fmt.Sprintf("after %s: %s list of %s not strictly nonce-ordered", op, kind, h.addrName(a)))
			}
			if from, err := types.Sender(h.e.signer, tx); err != nil || from != a {
				h.viol("list:wrong-sender:"+kind, fmt.Sprintf("after %s: %s filed under %s", op, h.txName(tx), h.addrName(a)))
			}
			sum.Add(sum, tx.Cost())
			if tx.Cost().Cmp(maxCost) > 0 {
				maxCost = tx.Cost()
			}
			maxGas = max(maxGas, tx.Gas())
		}
		if sum.Cmp(l.TotalCost) != 0 {
			h.viol("list:totalcost:"+kind, fmt.Sprintf("after %s: %s list of %s totalcost=%v, sum of costs=%v", op, kind, h.addrName(a), l.TotalCost, sum))
		}
		if l.CostCap.Cmp(maxCost) < 0 || l.GasCap < maxGas {
			h.viol("list:caps:"+kind, fmt.Sprintf("after %s: %s list of %s costcap=%v gascap=%d below max cost %v / max gas %d", op, kind, h.addrName(a), l.CostCap, l.GasCap, maxCost, maxGas))
		}
	}

	for a, l := range s.Pending {
		listInternals("pending", a, l)
		st := stOf(a)
		if len(l.Txs) == 0 {
			r.Count("note_empty_pending_list", 1)
			continue
		}
		totalPending += len(l.Txs)
		for _, tx := range l.Txs {
			inPending[tx.Hash()] = a
		}
		for i, tx := range l.Txs {
			if want := st.Nonce + uint64(i); tx.Nonce() != want {
				// KNOWN-FINDING class (narrow): the hole is behind the front, this operation is a
				// reorg that lowered the account's state nonce, and a reorged-out transaction of
				// the account with a nonce inside the hole was not re-admitted. Every other gap
				// keeps the generic fingerprint.
				fp := "pending:nonce-sequence"
				if i > 0 && regressed(a) && lostNotReadmitted(a, want, tx.Nonce()-1) {
					fp = "pending:nonce-gap-after-nonce-regression"
					h.dead = true // cascade control: stop this history
				}
				h.viol(fp, fmt.Sprintf("after %s: pending of %s has nonce %d at position %d, state nonce %d (pending nonces %v)", op, h.addrName(a), tx.Nonce(), i, st.Nonce, l.Index))
				break
			}
		}
		if h.dead {
			return s
		}
		for _, tx := range l.Txs {
			if tx.Cost().Cmp(st.Balance) > 0 {
				h.viol("pending:unaffordable", fmt.Sprintf("after %s: pending %s costs %v, balance %v", op, h.txName(tx), tx.Cost(), st.Balance))
			}
			if tx.Gas() > gasLimit {
				h.viol("pending:gas-over-limit", fmt.Sprintf("after %s: pending %s above block gas limit %d", op, h.txName(tx), gasLimit))
			}
		}
		want := l.Txs[len(l.Txs)-1].Nonce() + 1
		if got, ok := s.PendingNonces[a]; !ok || got != want {
			// KNOWN-FINDING follow-up (narrow): same root cause, but truncatePending cut the
			// transaction behind the hole within the same reset cycle, leaving the virtual nonce
			// above last+1. Required: reorg lowered the state nonce, pendingNonces > last+1, and a
			// reorged-out transaction with a nonce in [last+1, pendingNonces] was not re-admitted.
			fp := "pendingnonce"
			if ok && got > want && regressed(a) && lostNotReadmitted(a, want, got) {
				fp = "pendingnonce-after-nonce-regression"
				h.dead = true
			}
			h.viol(fp, fmt.Sprintf("after %s: pendingNonces[%s]=%d (present %v), last pending nonce+1=%d", op, h.addrName(a), got, ok, want))
			if h.dead {
				return s
			}
		}
	}
	for a, l := range s.Queue {
		listInternals("queue", a, l)
		if len(l.Txs) == 0 {
			r.Count("note_empty_queue_list", 1)
		}
		totalQueue += len(l.Txs)
		for _, tx := range l.Txs {
			if pa, dup := inPending[tx.Hash()]; dup {
				h.viol("both-pending-and-queued", fmt.Sprintf("after %s: %s is pending (%s) and queued (%s)", op, h.txName(tx), h.addrName(pa), h.addrName(a)))
			}
			inQueue[tx.Hash()] = a
		}
	}
	// all == pending ∪ queue
	for hash, tx := range s.All {
		if tx.Hash() != hash {
			h.viol("all:key-mismatch", fmt.Sprintf("after %s: lookup key %x maps to tx %x", op, hash[:4], tx.Hash().Bytes()[:4]))
		}
		_, p := inPending[hash]
		_, q := inQueue[hash]
		if !p && !q {
			h.viol("all:orphan", fmt.Sprintf("after %s: %s is in the lookup but neither pending nor queued", op, h.txName(tx)))
		}
	}
	for hash := range inPending {
		if _, ok := s.All[hash]; !ok {
			h.viol("all:missing-pending", fmt.Sprintf("after %s: pending tx %x missing from the lookup", op, hash[:4]))
		}
	}
	for hash := range inQueue {
		if _, ok := s.All[hash]; !ok {
			h.viol("all:missing-queued", fmt.Sprintf("after %s: queued tx %x missing from the lookup", op, hash[:4]))
		}
	}
	// slots
	wantSlots := 0
	for _, tx := range s.All {
		wantSlots += slotsOf(tx)
	}
	if wantSlots != s.Slots {
		h.viol("slots", fmt.Sprintf("after %s: slot counter %d, recomputed %d", op, s.Slots, wantSlots))
	}
	// price heaps
	inHeap := map[common.Hash]int{}
	for _, hash := range s.Urgent {
		inHeap[hash]++
	}
	for _, hash := range s.Floating {
		inHeap[hash]++
	}
	if pop := int64(len(s.Urgent)+len(s.Floating)) - s.Stales; pop != int64(len(s.All)) {
		// KNOWN-FINDING class (narrow): the stale counter drifts by the number of transactions
		// that were re-added while their stale heap entry still existed (two entries for one
		// hash, both looking live) when pricedList.Discard pops both entries. Attributed only
		// if this Add re-added such a transaction or the previous snapshot shows a hash twice
		// in the heaps; every other mismatch keeps the generic fingerprint.
		fp := "priced:population"
		dup := h.dupRisk
		if pre != nil {
			cnt := map[common.Hash]int{}
			for _, hash := range pre.Urgent {
				cnt[hash]++
			}
			for _, hash := range pre.Floating {
				cnt[hash]++
			}
			for hash, n := range cnt {
				if _, live := pre.All[hash]; live && n > 1 {
					dup = true
				}
			}
		}
		if dup && op == "add" && pop < int64(len(s.All)) {
			fp = "priced:population-after-duplicate-heap-entry"
			h.dead = true
		}
		h.viol(fp, fmt.Sprintf("after %s: urgent %d + floating %d - stales %d = %d, lookup has %d", op, len(s.Urgent), len(s.Floating), s.Stales, pop, len(s.All)))
		if h.dead {
			return s
		}
	}
	for hash, tx := range s.All {
		if inHeap[hash] == 0 {
			h.viol("priced:untracked", fmt.Sprintf("after %s: %s is pooled but in neither price heap", op, h.txName(tx)))
		}
	}
	// authorities
	wantAuth := map[common.Address]map[common.Hash]bool{}
	for hash, tx := range s.All {
		for _, au := range tx.SetCodeAuthorities() {
			if wantAuth[au] == nil {
				wantAuth[au] = map[common.Hash]bool{}
			}
			wantAuth[au][hash] = true
		}
	}
	for au, hs := range s.Auths {
		if len(hs) == 0 {
			h.viol("auths:empty-entry", fmt.Sprintf("after %s: empty authority entry for %s", op, h.addrName(au)))
		}
		seen := map[common.Hash]bool{}
		for _, hash := range hs {
			if !wantAuth[au][hash] || seen[hash] {
				h.viol("auths:dangling", fmt.Sprintf("after %s: authority %s tracks tx %x which is not a pooled set-code tx naming it (or twice)", op, h.addrName(au), hash[:4]))
			}
			seen[hash] = true
		}
	}
	for au, set := range wantAuth {
		if len(s.Auths[au]) < len(set) {
			h.viol("auths:missing", fmt.Sprintf("after %s: authority %s named by %d pooled txs, tracked %d", op, h.addrName(au), len(set), len(s.Auths[au])))
		}
	}
	// promotion missed: the next executable nonce sits in the queue although affordable
	for a, l := range s.Queue {
		pn, ok := s.PendingNonces[a]
		if !ok {
			pn = stOf(a).Nonce
		}
		for _, tx := range l.Txs {
			if tx.Nonce() == pn && tx.Cost().Cmp(stOf(a).Balance) <= 0 && tx.Gas() <= gasLimit {
				if h.deferred[a] && !(all || processed[a]) {
					// still waiting for the account's next promote cycle (see below)
					r.Count("note_promotion_deferred_after_reinject_eviction", 1)
					continue
				}
				delete(h.deferred, a)
				if h.reinjectSlots > 0 && (pre == nil || pre.Slots+h.reinjectSlots > globalSlots+globalQueue) {
					h.deferred[a] = true
					// Not judged: while re-injecting reorged-out transactions into a full pool,
					// an eviction (removeTx) can lower the fresh pending nonce of an account
					// below its new state nonce, so Ready() skips the account in this cycle;
					// the transaction is promoted in the next cycle. Promotion completeness is
					// not part of the property statement.
					r.Count("note_promotion_deferred_after_reinject_eviction", 1)
					continue
				}
				if h.stress {
					// Not judged under concurrency: a reset cycle promotes from the state nonce
					// (fresh noncer), so a transaction queued by a racing asynchronous Add right
					// behind the pending tail legitimately waits for the next promote cycle.
					r.Count("note_stress_queued_executable", 1)
					continue
				}
				h.viol("promotion-missed", fmt.Sprintf("after %s: %s is queued although it is the next executable nonce and affordable", op, h.txName(tx)))
			}
			if tx.Nonce() < stOf(a).Nonce {
				r.Count("note_queued_below_state_nonce", 1)
			}
		}
	}
	// demotions (evidence + per-account queue allowance)
	demoted := map[common.Address]int{}
	if pre != nil {
		for _, l := range pre.Pending {
			for _, tx := range l.Txs {
				if a, ok := inQueue[tx.Hash()]; ok {
					demoted[a]++
					h.fDemote = true
					r.Count("demoted_txs", 1)
				}
			}
		}
	}
	// limits after a maintenance cycle
	if maint {
		if totalPending > globalSlots {
			for a, l := range s.Pending {
				if len(l.Txs) > accountSlots {
					h.viol("limit:pending", fmt.Sprintf("after %s: %d pending > GlobalSlots %d while %s holds %d > AccountSlots", op, totalPending, globalSlots, h.addrName(a), len(l.Txs)))
					break
				}
			}
			r.Count("pending_above_globalslots_allowed", 1)
		}
		if totalQueue > globalQueue {
			h.viol("limit:queue-global", fmt.Sprintf("after %s: %d queued > GlobalQueue %d", op, totalQueue, globalQueue))
		}
		if pre != nil {
			prePending := 0
			for _, l := range pre.Pending {
				prePending += len(l.Txs)
			}
			preQueue := 0
			for _, l := range pre.Queue {
				preQueue += len(l.Txs)
			}
			if prePending > globalSlots-2 && totalPending <= globalSlots && totalPending < prePending {
				r.Count("note_pending_shrunk", 1)
			}
			_ = preQueue
		}
	}
	if pre != nil {
		// Per-account queue bound. The code caps an account's queue (AccountQueue) only when
		// the account goes through promoteExecutables; transactions demoted from pending
		// afterwards (demoteUnexecutables, removeTx) are enqueued without a cap. The bound is
		// therefore AccountQueue + demotions of this operation for processed accounts, and
		// max(AccountQueue, previous length + own accepted txs) + demotions otherwise.
		for a, l := range s.Queue {
			bound := accountQueue
			if !(all || processed[a]) {
				prevLen := 0
				if pl := pre.Queue[a]; pl != nil {
					prevLen = len(pl.Txs)
				}
				grown := 0
				for _, tx := range l.Txs {
					if _, was := pre.All[tx.Hash()]; !was {
						grown++
					}
				}
				bound = max(accountQueue, prevLen+grown)
			} else if !maint {
				bound = max(accountQueue, len(l.Txs))
			}
			bound += demoted[a]
			if len(l.Txs) > bound {
				h.viol("limit:queue-account", fmt.Sprintf("after %s: %s has %d queued, bound %d (AccountQueue %d + %d demoted)", op, h.addrName(a), len(l.Txs), bound, accountQueue, demoted[a]))
			}
			if len(l.Txs) > accountQueue {
				r.Count("note_account_queue_above_limit_after_demotion", 1)
			}
		}
		// truncation evidence
		if maint {
			gonePending, goneQueue := 0, 0
			for _, l := range pre.Pending {
				for _, tx := range l.Txs {
					if _, ok := s.All[tx.Hash()]; !ok {
						gonePending++
					}
				}
			}
			for _, l := range pre.Queue {
				for _, tx := range l.Txs {
					if _, ok := s.All[tx.Hash()]; !ok {
						goneQueue++
					}
				}
			}
			if op == "add" && gonePending > 0 && totalPending >= globalSlots {
				h.fTruncP = true
				r.Count("pending_truncations_seen", 1)
			}
			if op == "add" && goneQueue > 0 && totalQueue >= globalQueue-1 {
				h.fTruncQ = true
				r.Count("queue_truncations_seen", 1)
			}
		}
	}
	if h.verbose {
		var sb strings.Builder
		for i := 0; i < nAccounts; i++ {
			a := h.e.addrs[i]
			fmt.Fprintf(&sb, "A%d p[", i)
			if l := s.Pending[a]; l != nil {
				fmt.Fprintf(&sb, "%v", l.Index)
			}
			sb.WriteString("] q[")
			if l := s.Queue[a]; l != nil {
				fmt.Fprintf(&sb, "%v", l.Index)
			}
			fmt.Fprintf(&sb, "] pn=%v; ", s.PendingNonces[a])
		}
		fmt.Fprintf(&sb, " slots=%d stales=%d urgent=[", s.Slots, s.Stales)
		for _, x := range s.Urgent {
			live := "-"
			if tx, ok := s.All[x]; ok {
				live = fmt.Sprintf("%s/n%d", h.addrName(inPendingOrQueue(inPending, inQueue, x)), tx.Nonce())
			}
			fmt.Fprintf(&sb, "%x:%s ", x[:3], live)
		}
		sb.WriteString("] floating=[")
		for _, x := range s.Floating {
			live := "-"
			if tx, ok := s.All[x]; ok {
				live = fmt.Sprintf("%s/n%d", h.addrName(inPendingOrQueue(inPending, inQueue, x)), tx.Nonce())
			}
			fmt.Fprintf(&sb, "%x:%s ", x[:3], live)
		}
		sb.WriteString("]")
		h.logf("   pool after %s: %s", op, sb.String())
	}
	h.crossCheck(op, s, inPending, inQueue, totalPending, totalQueue)
	return s
}

// crossCheck compares the white-box snapshot with the public accessors.
func (h *hist) crossCheck(op string, s *legacypool.VerifSnapshot, inPending, inQueue map[common.Hash]common.Address, totalPending, totalQueue int) {
	r := h.r
	hd := h.ch.headBlk()
	p, q := h.pool.Stats()
	emptyLists := 0
	for _, l := range s.Pending {
		if len(l.Txs) == 0 {
			emptyLists++
		}
	}
	if p != totalPending || q != totalQueue {
		h.viol("api:stats", fmt.Sprintf("after %s: Stats()=(%d,%d), snapshot (%d,%d)", op, p, q, totalPending, totalQueue))
	}
	cp, cq := h.pool.Content()
	cmp := func(name string, api map[common.Address][]*types.Transaction, snap map[common.Address]*legacypool.VerifList) {
		if len(api) != len(snap) {
			h.viol("api:content:"+name, fmt.Sprintf("after %s: Content() has %d %s accounts, snapshot %d", op, len(api), name, len(snap)))
			return
		}
		for a, l := range snap {
			if !sameHashes(hashesOf(api[a]), hashesOf(l.Txs)) {
				h.viol("api:content:"+name, fmt.Sprintf("after %s: Content() %s of %s differs from the snapshot", op, name, h.addrName(a)))
			}
		}
	}
	cmp("pending", cp, s.Pending)
	cmp("queued", cq, s.Queue)
	pend, n := h.pool.Pending(txpool.PendingFilter{})
	if n != totalPending {
		h.viol("api:pending-count", fmt.Sprintf("after %s: Pending() count %d, snapshot %d", op, n, totalPending))
	}
	for a, l := range s.Pending {
		var hs []common.Hash
		for _, lt := range pend[a] {
			hs = append(hs, lt.Hash)
			if lt.Tx == nil || lt.Tx.Hash() != lt.Hash {
				h.viol("api:pending-lazy", fmt.Sprintf("after %s: lazy transaction without/with wrong payload", op))
			}
		}
		if !sameHashes(hs, hashesOf(l.Txs)) {
			h.viol("api:pending", fmt.Sprintf("after %s: Pending() of %s differs from the snapshot", op, h.addrName(a)))
		}
	}
	// filtered Pending: per account the longest prefix whose effective tip reaches MinTip.
	// Accounts holding a tx with feeCap < baseFee are not judged: the filter's treatment of
	// that case (types.Transaction.EffectiveGasTipIntCmp) is outside this property.
	f := randFilter(h.rng)
	fp, _ := h.pool.Pending(f)
	for a, l := range s.Pending {
		k, judge := 0, true
		for _, tx := range l.Txs {
			if f.MinTip != nil {
				if tx.GasFeeCap().Cmp(f.BaseFee.ToBig()) < 0 {
					judge = false
					break
				}
				eff := new(big.Int).Sub(tx.GasFeeCap(), f.BaseFee.ToBig())
				if eff.Cmp(tx.GasTipCap()) > 0 {
					eff = tx.GasTipCap()
				}
				if eff.Cmp(f.MinTip.ToBig()) < 0 {
					break
				}
			}
			if f.GasLimitCap != 0 && tx.Gas() > f.GasLimitCap {
				break
			}
			k++
		}
		var hs []common.Hash
		for _, lt := range fp[a] {
			hs = append(hs, lt.Hash)
		}
		if !judge {
			if len(hs) > k {
				r.Count("note_pending_filter_passes_feecap_below_basefee", 1)
			}
			continue
		}
		if !sameHashes(hs, hashesOf(l.Txs[:k])) {
			h.viol("api:pending-filtered", fmt.Sprintf("after %s: Pending(filter) of %s returned %d txs, expected prefix of %d", op, h.addrName(a), len(hs), k))
		}
	}
	r.Count("api_crosschecks", 1)
	for i := 0; i < nAccounts; i++ {
		a := h.e.addrs[i]
		want, ok := s.PendingNonces[a]
		if !ok {
			want = hd.state[a].Nonce
		}
		if got := h.pool.Nonce(a); got != want {
			h.viol("api:nonce", fmt.Sprintf("after %s: Nonce(%s)=%d, snapshot/state says %d", op, h.addrName(a), got, want))
		}
		if l := s.Pending[a]; l == nil && want != hd.state[a].Nonce {
			// not claimed by the property (no pending txs): recorded only
			r.Count("note_nonce_without_pending_differs_from_state", 1)
		}
		ap, aq := h.pool.ContentFrom(a)
		var sp, sq []*types.Transaction
		if l := s.Pending[a]; l != nil {
			sp = l.Txs
		}
		if l := s.Queue[a]; l != nil {
			sq = l.Txs
		}
		if !sameHashes(hashesOf(ap), hashesOf(sp)) || !sameHashes(hashesOf(aq), hashesOf(sq)) {
			h.viol("api:contentfrom", fmt.Sprintf("after %s: ContentFrom(%s) differs from the snapshot", op, h.addrName(a)))
		}
	}
	for hash := range s.All {
		if !h.pool.Has(hash) || h.pool.Get(hash) == nil {
			h.viol("api:has", fmt.Sprintf("after %s: Has/Get deny pooled tx %x", op, hash[:4]))
		}
		st := h.pool.Status(hash)
		_, isP := inPending[hash]
		_, isQ := inQueue[hash]
		if (isP && st != txpool.TxStatusPending) || (!isP && isQ && st != txpool.TxStatusQueued) {
			h.viol("api:status", fmt.Sprintf("after %s: Status(%x)=%v, pending=%v queued=%v", op, hash[:4], st, isP, isQ))
		}
	}
	// a few known-but-not-pooled hashes must be denied
	h.mu.Lock()
	kn := h.known
	h.mu.Unlock()
	for i := 0; i < 6 && len(kn) > 0; i++ {
		tx := kn[h.rng.Intn(len(kn))]
		if _, pooled := s.All[tx.Hash()]; !pooled && (h.pool.Has(tx.Hash()) || h.pool.Get(tx.Hash()) != nil) {
			h.viol("api:has-ghost", fmt.Sprintf("after %s: Has/Get report %s which is not pooled", op, h.txName(tx)))
		}
	}
	// reservations (evidence only: not part of the property)
	held, _ := h.res.snapshot()
	want := map[common.Address]bool{}
	for a := range s.Pending {
		want[a] = true
	}
	for a := range s.Queue {
		want[a] = true
	}
	if len(held) != len(want) {
		r.Count("note_reservation_set_differs", 1)
	} else {
		for a := range want {
			if !held[a] {
				r.Count("note_reservation_set_differs", 1)
				break
			}
		}
	}
	_ = sort.Ints
}

func inPendingOrQueue(p, q map[common.Hash]common.Address, x common.Hash) common.Address {
	if a, ok := p[x]; ok {
		return a
	}
	return q[x]
}
