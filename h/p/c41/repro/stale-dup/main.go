// Stand-alone reproducer (no oracle code) for C41 known finding
// "priced:population-after-duplicate-heap-entry".
//
// A pooled transaction T is dropped (SetGasTip raise) - its entry stays in the price heap as a
// stale entry, counted in pricedList.stales - and is then re-added (same hash) while that entry
// still exists: the heap now holds T twice and both entries look live. When the pool is full and
// a 2-slot transaction arrives, pricedList.Discard(2) pops both entries of T, counts T's slot
// twice and reports success; only one slot is really freed and `stales` keeps counting an entry
// that no longer exists.
// Expected: urgent+floating-stales == number of pooled txs, and slots <= GlobalSlots+GlobalQueue.
package main

import (
	"crypto/ecdsa"
	"fmt"
	"math/big"

	"github.com/ethereum/go-ethereum/common"
	"github.com/ethereum/go-ethereum/core/txpool/legacypool"
	"github.com/ethereum/go-ethereum/core/types"
	"github.com/ethereum/go-ethereum/crypto"

	"verif/p/c41/repro/stub"
)

type keyT struct {
	key  *ecdsa.PrivateKey
	addr common.Address
}

func main() {
	st := map[common.Address]stub.Acct{}
	ks := make([]*keyT, 9)
	for i := range ks {
		k, _ := crypto.ToECDSA(common.LeftPadBytes([]byte{0x42, byte(i + 1)}, 32))
		ks[i] = &keyT{k, crypto.PubkeyToAddress(k.PublicKey)}
		st[ks[i].addr] = stub.Acct{Nonce: 0, Balance: 1_000_000_000_000}
	}
	ch := stub.New(st)
	signer := types.LatestSigner(ch.Cfg)
	mk := func(i int, price int64, gas uint64, data []byte) *types.Transaction {
		to := common.Address{0xaa}
		return types.MustSignNewTx(ks[i].key, signer, &types.LegacyTx{Nonce: 0, GasPrice: big.NewInt(price), Gas: gas, To: &to, Value: new(big.Int), Data: data})
	}
	cfg := legacypool.DefaultConfig
	cfg.Journal = ""
	cfg.GlobalSlots, cfg.GlobalQueue = 7, 1 // 8 slots in total
	pool := legacypool.New(cfg, ch)
	if err := pool.Init(1, ch.Head.Header(), stub.Reserver{}); err != nil {
		panic(err)
	}
	defer pool.Close()
	show := func(when string) {
		s := pool.VerifSnapshot()
		p, q := pool.Stats()
		fmt.Printf("%-46s Stats()=%d+%d  lookup=%d slots=%d  heaps: urgent=%d floating=%d stales=%d  => urgent+floating-stales=%d\n",
			when, p, q, len(s.All), s.Slots, len(s.Urgent), len(s.Floating), s.Stales, int64(len(s.Urgent)+len(s.Floating))-s.Stales)
	}
	T := mk(0, 2, 21000, nil)
	fmt.Println("add T (price 2) and 4 others (price 100):", pool.Add([]*types.Transaction{T, mk(1, 100, 21000, nil), mk(2, 100, 21000, nil), mk(3, 100, 21000, nil), mk(4, 100, 21000, nil)}, true))
	show("5 pooled:")
	pool.SetGasTip(big.NewInt(3))
	show("SetGasTip(3): T dropped, entry stale:")
	pool.SetGasTip(big.NewInt(1))
	fmt.Println("re-add T:", pool.Add([]*types.Transaction{T}, true))
	show("T re-added (two heap entries for T):")
	fmt.Println("fill to 8 slots:", pool.Add([]*types.Transaction{mk(5, 100, 21000, nil), mk(6, 100, 21000, nil), mk(7, 100, 21000, nil)}, true))
	show("pool full (8 of 8 slots):")
	big2 := mk(8, 1000, 400000, make([]byte, 33000))
	fmt.Println("add a 2-slot tx (price 1000):", pool.Add([]*types.Transaction{big2}, true))
	show("after Discard(2) popped T twice:")
	s := pool.VerifSnapshot()
	fmt.Printf("expected: urgent+floating-stales == lookup (%d) and slots <= %d\n", len(s.All), cfg.GlobalSlots+cfg.GlobalQueue)
	fmt.Printf("observed: urgent+floating-stales = %d, lookup = %d, slots = %d, T pooled: %v\n", int64(len(s.Urgent)+len(s.Floating))-s.Stales, len(s.All), s.Slots, pool.Has(T.Hash()))
}
