// Package stub is a minimal legacypool.BlockChain for the stand-alone reproducers: a block tree
// whose per-block account state (nonce, balance) is given explicitly. No oracle code.
package stub

import (
	"fmt"
	"math/big"

	"github.com/ethereum/go-ethereum/common"
	"github.com/ethereum/go-ethereum/core/state"
	"github.com/ethereum/go-ethereum/core/tracing"
	"github.com/ethereum/go-ethereum/core/types"
	"github.com/ethereum/go-ethereum/params"
	"github.com/ethereum/go-ethereum/trie"
	"github.com/holiman/uint256"
)

type Acct struct {
	Nonce   uint64
	Balance int64
}

type Chain struct {
	Cfg    *params.ChainConfig
	blocks map[common.Hash]*types.Block
	states map[common.Hash]map[common.Address]Acct
	Head   *types.Block
	gen    *types.Block
	seq    byte
}

func New(st map[common.Address]Acct) *Chain {
	cfg := *params.MergedTestChainConfig
	c := &Chain{Cfg: &cfg, blocks: map[common.Hash]*types.Block{}, states: map[common.Hash]map[common.Address]Acct{}}
	h := &types.Header{Number: big.NewInt(0), Difficulty: big.NewInt(0), GasLimit: 5_000_000, BaseFee: big.NewInt(7), Time: 1}
	b := types.NewBlock(h, nil, nil, trie.NewStackTrie(nil))
	c.blocks[b.Hash()], c.states[b.Hash()], c.Head, c.gen = b, st, b, b
	return c
}

// Extend adds a child of parent with the given txs and post-state (does not move the head).
func (c *Chain) Extend(parent *types.Block, txs []*types.Transaction, st map[common.Address]Acct) *types.Block {
	c.seq++
	h := &types.Header{ParentHash: parent.Hash(), Number: new(big.Int).Add(parent.Number(), big.NewInt(1)), Difficulty: big.NewInt(0),
		GasLimit: 5_000_000, BaseFee: big.NewInt(7), Time: parent.Time() + 12, Extra: []byte{c.seq}}
	b := types.NewBlock(h, &types.Body{Transactions: txs}, nil, trie.NewStackTrie(nil))
	c.blocks[b.Hash()], c.states[b.Hash()] = b, st
	return b
}

func (c *Chain) Config() *params.ChainConfig { return c.Cfg }
func (c *Chain) CurrentBlock() *types.Header { return c.Head.Header() }
func (c *Chain) Genesis() *types.Block       { return c.gen }
func (c *Chain) GetBlock(hash common.Hash, number uint64) *types.Block {
	if b := c.blocks[hash]; b != nil && b.NumberU64() == number {
		return b
	}
	return nil
}
func (c *Chain) StateAt(h *types.Header) (*state.StateDB, error) {
	st, ok := c.states[h.Hash()]
	if !ok {
		return nil, fmt.Errorf("unknown block")
	}
	sdb, err := state.New(types.EmptyRootHash, state.NewDatabaseForTesting())
	if err != nil {
		return nil, err
	}
	for a, s := range st {
		sdb.SetNonce(a, s.Nonce, tracing.NonceChangeUnspecified)
		sdb.SetBalance(a, uint256.NewInt(uint64(s.Balance)), tracing.BalanceChangeUnspecified)
	}
	return sdb, nil
}

// Reserver is a trivial single-pool txpool.Reserver.
type Reserver struct{}

func (Reserver) Hold(common.Address) error    { return nil }
func (Reserver) Release(common.Address) error { return nil }
func (Reserver) Has(common.Address) bool      { return false }
