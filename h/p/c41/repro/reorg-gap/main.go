// Stand-alone reproducer (no oracle code) for C41 known finding
// "pending:nonce-gap-after-nonce-regression".
//
//	G --- B1 (A funded: 10M) --- B2 (includes A/n0, A/n1)      pool: pending [n2]
//	  \-- B1' (A not funded: 2M)                                reorg B2 -> B1'
//
// After Reset(B2, B1') returned, n0 is re-admitted, n1 (cost 6.21M) is unaffordable on the new
// branch, and n2 - still sitting in the pending list from the old branch - stays pending behind
// the hole. Expected by the property: pending nonces of A gapless from the state nonce (0).
package main

import (
	"fmt"
	"math/big"

	"github.com/ethereum/go-ethereum/common"
	"github.com/ethereum/go-ethereum/core/txpool"
	"github.com/ethereum/go-ethereum/core/txpool/legacypool"
	"github.com/ethereum/go-ethereum/core/types"
	"github.com/ethereum/go-ethereum/crypto"

	"verif/p/c41/repro/stub"
)

func main() {
	key, _ := crypto.ToECDSA(common.LeftPadBytes([]byte{0x41, 1}, 32))
	a := crypto.PubkeyToAddress(key.PublicKey)
	ch := stub.New(map[common.Address]stub.Acct{a: {Nonce: 0, Balance: 2_000_000}})
	signer := types.LatestSigner(ch.Cfg)
	mk := func(nonce uint64, value int64) *types.Transaction {
		to := common.Address{0xaa}
		return types.MustSignNewTx(key, signer, &types.DynamicFeeTx{ChainID: ch.Cfg.ChainID, Nonce: nonce, GasTipCap: big.NewInt(10), GasFeeCap: big.NewInt(10), Gas: 21000, To: &to, Value: big.NewInt(value)})
	}
	n0, n1, n2 := mk(0, 0), mk(1, 6_000_000), mk(2, 0)

	g := ch.Head
	b1 := ch.Extend(g, nil, map[common.Address]stub.Acct{a: {Nonce: 0, Balance: 10_000_000}})
	b2 := ch.Extend(b1, []*types.Transaction{n0, n1}, map[common.Address]stub.Acct{a: {Nonce: 2, Balance: 10_000_000 - 210_000 - 6_210_000}})
	b1x := ch.Extend(g, nil, map[common.Address]stub.Acct{a: {Nonce: 0, Balance: 2_000_000}})

	pool := legacypool.New(legacypool.DefaultConfig, ch)
	if err := pool.Init(1, g.Header(), stub.Reserver{}); err != nil {
		panic(err)
	}
	defer pool.Close()
	show := func(when string) []uint64 {
		p, q := pool.Content()
		var pn, qn []uint64
		for _, tx := range p[a] {
			pn = append(pn, tx.Nonce())
		}
		for _, tx := range q[a] {
			qn = append(qn, tx.Nonce())
		}
		lazy, _ := pool.Pending(txpool.PendingFilter{})
		fmt.Printf("%-34s Content(): pending nonces %v queued %v | Pending(): %d txs | Nonce()=%d\n", when, pn, qn, len(lazy[a]), pool.Nonce(a))
		return pn
	}
	ch.Head = b1
	pool.Reset(g.Header(), b1.Header())
	fmt.Println("Add(n0,n1,n2):", pool.Add([]*types.Transaction{n0, n1, n2}, true))
	show("head B1 (state nonce 0, 10M):")
	ch.Head = b2
	pool.Reset(b1.Header(), b2.Header())
	show("head B2 (state nonce 2):")
	ch.Head = b1x
	pool.Reset(b2.Header(), b1x.Header())
	pn := show("head B1' (state nonce 0, 2M):")
	fmt.Println("expected: pending nonces gapless from state nonce 0 (e.g. [0], n2 demoted to the queue)")
	gap := false
	for i, n := range pn {
		if n != uint64(i) {
			gap = true
		}
	}
	fmt.Printf("observed: pending nonces %v -> hole in pending: %v\n", pn, gap)
}
