package main

import (
	"math/big"

	"github.com/ethereum/go-ethereum/common"
	"github.com/ethereum/go-ethereum/core/types"
)

// runRegressionScenario is a scripted minimal history for the nonce-regression class found by
// the random workload: an account's nonce goes back in a reorg, one of the reorged-out
// transactions cannot be re-admitted on the new branch (here: unaffordable because the funding
// block was reorged out as well) and a higher-nonce transaction that was pending on the old
// branch stays in the pending list behind the hole.
//
//	G --- B1 (A0 funded: 10M) --- B2 (includes A0/n0, A0/n1)      pool: pending [n2]
//	  \-- B1' (A0 not funded: 2M)                                  reorg B2 -> B1'
//
// Expected by the property after the reorg: pending of A0 gapless from nonce 0.
func runRegressionScenario(e *env) {
	h := newHistWithGenesis(e, 1_000_000, "scenario", func(i int) acct {
		return acct{Nonce: 0, Balance: big.NewInt(2_000_000)}
	})
	defer h.pool.Close()
	r := h.r
	r.Case("C41 scripted scenario: reorg lowers nonce, middle tx not re-admitted")
	a0 := e.addrs[0]
	g := h.ch.headBlk()
	mk := func(nonce uint64, value int64) *types.Transaction {
		to := common.Address{0xaa}
		tx, err := types.SignNewTx(e.keys[0], e.signer, &types.DynamicFeeTx{ChainID: e.config.ChainID, Nonce: nonce, GasTipCap: big.NewInt(10), GasFeeCap: big.NewInt(10), Gas: 21000, To: &to, Value: big.NewInt(value)})
		if err != nil {
			panic(err)
		}
		return tx
	}
	n0, n1, n2 := mk(0, 0), mk(1, 6_000_000), mk(2, 0)
	st1 := copyState(g.state)
	st1[a0] = acct{Nonce: 0, Balance: big.NewInt(10_000_000)}
	b1 := h.ch.extend(g, nil, st1, 5_000_000, 7, 0)
	h.ch.setHead(b1)
	h.logf("scenario: advance G->B1, A0 funded to 10M")
	h.pool.Reset(g.header, b1.header)
	h.prev = h.check("advance", true, nil, allProcessed)
	h.opAdd([]*types.Transaction{n0, n1, n2})
	st2 := copyState(st1)
	st2[a0] = acct{Nonce: 2, Balance: big.NewInt(10_000_000 - 210_000 - 6_210_000)}
	b2 := h.ch.extend(b1, []*types.Transaction{n0, n1}, st2, 5_000_000, 7, 42000)
	h.ch.setHead(b2)
	h.logf("scenario: advance B1->B2 including A0/n0,n1")
	pre := h.prev
	h.pool.Reset(b1.header, b2.header)
	h.prev = h.check("advance", true, pre, allProcessed)
	b1x := h.ch.extend(g, nil, copyState(g.state), 5_000_000, 7, 0)
	h.ch.setHead(b1x)
	h.logf("scenario: reorg B2->B1' (sibling of B1 without the funding): A0 nonce 0, balance 2M; n0 re-admitted, n1 (6.21M) unaffordable")
	pre = h.prev
	h.lost = map[common.Hash]*types.Transaction{n0.Hash(): n0, n1.Hash(): n1}
	h.pool.Reset(b2.header, b1x.header)
	h.prev = h.check("reorg", true, pre, allProcessed)
	r.Count("scripted_scenarios", 1)
}
