// C41: the legacy transaction pool keeps only consistent, executable pending sets.
//
// A real legacypool.LegacyPool is driven directly (tiny limits) over a harness chain stub whose
// per-block account state is chosen by the harness. After every operation, once the pool's
// reorg loop is idle (Add(sync=true) / Reset returned), a white-box snapshot (VerifSnapshot,
// build tag verif) is cross-checked with the public accessors and all invariants of the
// property are recomputed from scratch; every Add is additionally judged by a naive admission
// model (see model.go).
package main

import (
	"crypto/ecdsa"
	"fmt"
	"math/big"
	"math/rand"
	"os"
	"sort"
	"strconv"
	"strings"
	"sync"
	"sync/atomic"

	"github.com/ethereum/go-ethereum/common"
	"github.com/ethereum/go-ethereum/core/txpool/legacypool"
	"github.com/ethereum/go-ethereum/core/types"
	"github.com/ethereum/go-ethereum/crypto"
	"github.com/ethereum/go-ethereum/params"
	"github.com/holiman/uint256"

	"verif/lib/vrt"
)

func main() { vrt.Main("C41", run) }

const (
	nAccounts    = 5
	accountSlots = 2
	globalSlots  = 6
	accountQueue = 3
	globalQueue  = 8
	priceBump    = 10
)

var (
	feeLadder     = []int64{1, 2, 100, 109, 110, 121, 200, 1000}
	balLadder     = []int64{0, 2_100_000, 2_310_000, 5_000_000, 30_000_000, 100_000_000, 100_000_000, 1_000_000_000_000, 1_000_000_000_000, 1_000_000_000_000, 1_000_000_000_000, 1_000_000_000_000}
	gasLimLadder  = []uint64{5_000_000, 5_000_000, 150_000, 60_000}
	baseFeeLadder = []int64{1, 7, 100, 150, 1000}
	tipLadder     = []int64{1, 1, 2, 100, 110}
)

type env struct {
	r      *vrt.Run
	keys   []*ecdsa.PrivateKey // nAccounts pool accounts + 1 outsider (authority only)
	addrs  []common.Address
	signer types.Signer
	config *params.ChainConfig
	pcfg   legacypool.Config
}

func newEnv(r *vrt.Run) *env {
	cfg := *params.MergedTestChainConfig
	e := &env{r: r, config: &cfg}
	for i := 0; i < nAccounts+1; i++ {
		// fixed keys: the account set is part of the workload definition, not of the seed
		k, err := crypto.ToECDSA(common.LeftPadBytes([]byte{0x41, byte(i + 1)}, 32))
		if err != nil {
			panic(err)
		}
		e.keys = append(e.keys, k)
		e.addrs = append(e.addrs, crypto.PubkeyToAddress(k.PublicKey))
	}
	e.signer = types.LatestSigner(e.config)
	e.pcfg = legacypool.DefaultConfig
	e.pcfg.Journal = ""
	e.pcfg.AccountSlots = accountSlots
	e.pcfg.GlobalSlots = globalSlots
	e.pcfg.AccountQueue = accountQueue
	e.pcfg.GlobalQueue = globalQueue
	e.pcfg.PriceBump = priceBump
	return e
}

// hist is one history: a pool, its chain stub and the monitor state.
type hist struct {
	e    *env
	r    *vrt.Run
	idx  int
	rng  *rand.Rand
	ch   *chain
	pool *legacypool.LegacyPool
	res  *reserver

	mu     sync.Mutex // guards known, log (stress mode)
	known  []*types.Transaction
	log    []string
	gasTip int64

	prev    *legacypool.VerifSnapshot // snapshot after the previous operation (nil: unknown)
	dead    bool                      // a panic was caught; pool state is unusable
	stress  bool                      // concurrent history
	verbose bool

	reinjectSlots int                                // slots of the transactions the last head change had to re-inject (0: none)
	lost          map[common.Hash]*types.Transaction // reorged-out txs of the current reorg op (stress: of all reorgs)
	dupRisk       bool                               // this Add re-added a transaction whose stale heap entry still exists
	deferred      map[common.Address]bool            // promotion deferred by an eviction during re-injection
	everRegressed map[common.Address]bool            // stress mode: some reorg lowered the account's state nonce

	// shape flags of this history (signature)
	fEvict, fReplace, fResurrect, fDemote, fTruncP, fTruncQ, fSetCode, fDelegRej, fFundsRej, fMulti, fGasDrop bool
}

func (h *hist) logf(format string, a ...any) {
	h.mu.Lock()
	h.log = append(h.log, fmt.Sprintf(format, a...))
	h.mu.Unlock()
}

func (h *hist) witness() any {
	h.mu.Lock()
	defer h.mu.Unlock()
	l := h.log
	if len(l) > 120 {
		l = l[len(l)-120:]
	}
	return map[string]any{"history": h.idx, "ops": append([]string{}, l...)}
}

func (h *hist) viol(fp, msg string) {
	h.r.Violation(fp, fmt.Sprintf("history %d: %s", h.idx, msg), h.witness())
}

func (h *hist) addrName(a common.Address) string {
	for i, x := range h.e.addrs {
		if x == a {
			return fmt.Sprintf("A%d", i)
		}
	}
	return fmt.Sprintf("%x", a[:4])
}

func (h *hist) txName(tx *types.Transaction) string {
	from, _ := types.Sender(h.e.signer, tx)
	return fmt.Sprintf("%s/n%d/t%d/tip%v/cap%v/gas%d/val%v/%x", h.addrName(from), tx.Nonce(), tx.Type(), tx.GasTipCap(), tx.GasFeeCap(), tx.Gas(), tx.Value(), tx.Hash().Bytes()[:3])
}

func newHist(e *env, idx int, stream string) *hist {
	return newHistWithGenesis(e, idx, stream, nil)
}

func newHistWithGenesis(e *env, idx int, stream string, genAcct func(i int) acct) *hist {
	h := &hist{e: e, r: e.r, idx: idx, rng: e.r.Rand(stream, idx), gasTip: 1, lost: map[common.Hash]*types.Transaction{}, deferred: map[common.Address]bool{}, everRegressed: map[common.Address]bool{}}
	gen := map[common.Address]acct{}
	for i := 0; i < nAccounts; i++ {
		if genAcct != nil {
			gen[e.addrs[i]] = genAcct(i)
			continue
		}
		gen[e.addrs[i]] = acct{
			Nonce:     uint64(h.rng.Intn(3)),
			Balance:   big.NewInt(balLadder[4+h.rng.Intn(len(balLadder)-4)]),
			Delegated: i == 3,
		}
	}
	h.ch = newChain(e.config, gen, gasLimLadder[0], baseFeeLadder[h.rng.Intn(len(baseFeeLadder))])
	h.pool = legacypool.New(e.pcfg, h.ch)
	h.res = newReserver()
	if err := h.pool.Init(uint64(h.gasTip), h.ch.CurrentBlock(), h.res); err != nil {
		panic(err)
	}
	return h
}

func (h *hist) state(a common.Address) acct {
	st, ok := h.ch.headBlk().state[a]
	if !ok {
		return acct{Balance: new(big.Int)}
	}
	return st
}

func (h *hist) remember(tx *types.Transaction) {
	h.mu.Lock()
	h.known = append(h.known, tx)
	h.mu.Unlock()
}

func (h *hist) someKnown(rng *rand.Rand) *types.Transaction {
	h.mu.Lock()
	defer h.mu.Unlock()
	if len(h.known) == 0 {
		return nil
	}
	return h.known[rng.Intn(len(h.known))]
}

// ---------------------------------------------------------------- transaction generation

func pick(rng *rand.Rand, l []int64) int64 { return l[rng.Intn(len(l))] }

// bumpVariants returns fee values around the replacement threshold of old.
func bumpVariants(rng *rand.Rand, old int64) int64 {
	thr := old * (100 + priceBump) / 100
	switch rng.Intn(7) {
	case 0:
		return thr // exactly at the threshold
	case 1:
		if thr > 1 {
			return thr - 1
		}
		return thr
	case 2:
		return old // equal
	case 3:
		return old + 1
	case 4:
		return thr + 1
	case 5:
		return old * 2
	default:
		if old > 1 {
			return old - 1
		}
		return old
	}
}

// genTx creates a signed transaction aimed at an interesting spot of the pool. view may be nil
// (stress mode): then only public accessors are used.
func (h *hist) genTx(rng *rand.Rand, view *legacypool.VerifSnapshot) *types.Transaction {
	e := h.e
	if rng.Intn(100) < 8 {
		if tx := h.someKnown(rng); tx != nil {
			return tx // resubmission: already known, or previously dropped / included
		}
	}
	ai := rng.Intn(nAccounts)
	a := e.addrs[ai]
	st := h.state(a)
	pn := h.pool.Nonce(a)
	var pendN, queueN []uint64
	if view != nil {
		if l := view.Pending[a]; l != nil {
			for _, tx := range l.Txs {
				pendN = append(pendN, tx.Nonce())
			}
		}
		if l := view.Queue[a]; l != nil {
			for _, tx := range l.Txs {
				queueN = append(queueN, tx.Nonce())
			}
		}
	} else {
		for n := st.Nonce; n < pn; n++ {
			pendN = append(pendN, n)
		}
	}
	nonce := pn
	switch x := rng.Intn(100); {
	case x < 38:
	case x < 58:
		if len(pendN) > 0 {
			nonce = pendN[rng.Intn(len(pendN))]
		}
	case x < 74:
		nonce = pn + 1 + uint64(rng.Intn(3))
	case x < 85:
		if len(queueN) > 0 {
			nonce = queueN[rng.Intn(len(queueN))]
		} else {
			nonce = pn + 1
		}
	case x < 90:
		if st.Nonce > 0 {
			nonce = st.Nonce - 1
		}
	default:
		nonce = st.Nonce + uint64(rng.Intn(13))
	}
	var old *types.Transaction
	if view != nil {
		for _, m := range []map[common.Address]*legacypool.VerifList{view.Pending, view.Queue} {
			if l := m[a]; l != nil {
				for _, tx := range l.Txs {
					if tx.Nonce() == nonce {
						old = tx
					}
				}
			}
		}
	}
	var tip, feeCap int64
	if old != nil && rng.Intn(100) < 85 {
		tip = bumpVariants(rng, old.GasTipCap().Int64())
		feeCap = bumpVariants(rng, old.GasFeeCap().Int64())
		if feeCap < tip && rng.Intn(100) < 90 {
			feeCap = tip
		}
	} else {
		feeCap = pick(rng, feeLadder)
		tip = pick(rng, feeLadder)
		if tip > feeCap && rng.Intn(100) < 95 {
			tip, feeCap = feeCap, tip
		}
	}
	gas := uint64(21000)
	switch x := rng.Intn(100); {
	case x < 72:
	case x < 92:
		gas = 100000
	case x < 95:
		gas = 20000 // below intrinsic
	case x < 97:
		gas = 8_000_000 // above every head gas limit of the workload
	default:
		gas = 30000
	}
	var data []byte
	if rng.Intn(100) < 3 {
		data = make([]byte, 33000) // two pool slots
		gas = 400000
	}
	kind := rng.Intn(100)
	// value: zero, small, or at the edge of the balance
	value := new(big.Int)
	switch x := rng.Intn(100); {
	case x < 45:
	case x < 70:
		value.SetInt64(100)
	default:
		capForCost := feeCap
		edge := new(big.Int).Sub(st.Balance, new(big.Int).Mul(big.NewInt(capForCost), new(big.Int).SetUint64(gas)))
		edge.Add(edge, big.NewInt(int64(rng.Intn(3)-1)))
		if edge.Sign() > 0 {
			value = edge
		}
	}
	to := common.Address{0xaa}
	var tx *types.Transaction
	var err error
	switch {
	case kind < 35:
		tx, err = types.SignNewTx(e.keys[ai], e.signer, &types.LegacyTx{Nonce: nonce, GasPrice: big.NewInt(feeCap), Gas: gas, To: &to, Value: value, Data: data})
	case kind < 80:
		tx, err = types.SignNewTx(e.keys[ai], e.signer, &types.DynamicFeeTx{ChainID: e.config.ChainID, Nonce: nonce, GasTipCap: big.NewInt(tip), GasFeeCap: big.NewInt(feeCap), Gas: gas, To: &to, Value: value, Data: data})
	default:
		if gas == 21000 || gas == 30000 {
			gas = 100000
		}
		var auths []types.SetCodeAuthorization
		n := 1 + rng.Intn(2)
		if rng.Intn(100) < 5 {
			n = 0
		}
		for i := 0; i < n; i++ {
			ki := rng.Intn(nAccounts + 1)
			if rng.Intn(100) < 35 {
				ki = 4 // the designated "pending authorisation" account
			}
			au, aerr := types.SignSetCode(e.keys[ki], types.SetCodeAuthorization{ChainID: *uint256.MustFromBig(e.config.ChainID), Address: common.Address{0x42}, Nonce: uint64(rng.Intn(4))})
			if aerr != nil {
				panic(aerr)
			}
			auths = append(auths, au)
		}
		tx, err = types.SignNewTx(e.keys[ai], e.signer, &types.SetCodeTx{ChainID: uint256.MustFromBig(e.config.ChainID), Nonce: nonce, GasTipCap: uint256.NewInt(uint64(tip)), GasFeeCap: uint256.NewInt(uint64(feeCap)), Gas: gas, To: to, Value: uint256.MustFromBig(value), Data: data, AuthList: auths})
	}
	if err != nil {
		panic(err)
	}
	h.remember(tx)
	return tx
}

// genFlood creates a batch of cheap, valid transactions for several accounts, either contiguous
// from the next executable nonce (fills pending) or gapped (fills the queue), to push the pool
// against its limits.
func (h *hist) genFlood(rng *rand.Rand) []*types.Transaction {
	e := h.e
	var txs []*types.Transaction
	gapped := rng.Intn(2) == 0
	for ai := 0; ai < nAccounts; ai++ {
		if rng.Intn(100) < 25 {
			continue
		}
		pn := h.pool.Nonce(e.addrs[ai])
		start := pn
		if gapped {
			start = pn + 1
		}
		k := 1 + rng.Intn(4)
		for j := 0; j < k; j++ {
			fee := pick(rng, feeLadder[2:])
			to := common.Address{0xcc}
			tx, err := types.SignNewTx(e.keys[ai], e.signer, &types.DynamicFeeTx{ChainID: e.config.ChainID, Nonce: start + uint64(j), GasTipCap: big.NewInt(fee), GasFeeCap: big.NewInt(fee), Gas: 21000, To: &to, Value: big.NewInt(int64(rng.Intn(3)))})
			if err != nil {
				panic(err)
			}
			h.remember(tx)
			txs = append(txs, tx)
		}
	}
	rng.Shuffle(len(txs), func(i, j int) { txs[i], txs[j] = txs[j], txs[i] })
	if len(txs) == 0 {
		txs = append(txs, h.genTx(rng, h.prev))
	}
	return txs
}

// ---------------------------------------------------------------- chain operations

// buildChild builds a child block of parent: a random nonce-ordered subset of the candidate
// transactions is included, the account state is advanced accordingly and then perturbed
// (balance changes, delegation changes); transactions the pool never saw are included as well.
func (h *hist) buildChild(rng *rand.Rand, parent *blk, cands []*types.Transaction) *blk {
	e := h.e
	st := copyState(parent.state)
	by := map[common.Address][]*types.Transaction{}
	seen := map[common.Hash]bool{}
	for _, tx := range cands {
		if seen[tx.Hash()] {
			continue
		}
		seen[tx.Hash()] = true
		from, _ := types.Sender(e.signer, tx)
		by[from] = append(by[from], tx)
	}
	var included []*types.Transaction
	for i := 0; i < nAccounts; i++ {
		a := e.addrs[i]
		l := by[a]
		sort.SliceStable(l, func(i, j int) bool { return l[i].Nonce() < l[j].Nonce() })
		s := st[a]
		for _, tx := range l {
			if tx.Nonce() != s.Nonce || rng.Intn(100) >= 65 {
				if tx.Nonce() > s.Nonce {
					break
				}
				continue
			}
			included = append(included, tx)
			s.Nonce++
			if rng.Intn(100) < 70 {
				s.Balance = new(big.Int).Sub(s.Balance, tx.Cost())
				if s.Balance.Sign() < 0 {
					s.Balance.SetInt64(0)
				}
			}
		}
		// a transaction of this account that the pool never saw
		if rng.Intn(100) < 10 {
			to := common.Address{0xbb}
			ftx, err := types.SignNewTx(e.keys[i], e.signer, &types.DynamicFeeTx{ChainID: e.config.ChainID, Nonce: s.Nonce, GasTipCap: big.NewInt(3), GasFeeCap: big.NewInt(3000), Gas: 21000, To: &to, Value: big.NewInt(int64(rng.Intn(1000)))})
			if err != nil {
				panic(err)
			}
			included = append(included, ftx)
			s.Nonce++
		}
		if x := rng.Intn(100); x < 14 {
			s.Balance = big.NewInt(pick(rng, balLadder))
		} else if x < 18 && i >= 2 {
			s.Delegated = !s.Delegated
		}
		st[a] = s
	}
	gasLimit := parent.header.GasLimit
	if rng.Intn(100) < 35 {
		gasLimit = gasLimLadder[rng.Intn(len(gasLimLadder))]
	}
	return h.ch.extend(parent, included, st, gasLimit, pick(rng, baseFeeLadder), uint64(rng.Int63n(int64(gasLimit)+1)))
}

func (h *hist) poolTxs(s *legacypool.VerifSnapshot, rng *rand.Rand) []*types.Transaction {
	var out []*types.Transaction
	if s != nil {
		for _, l := range s.Pending {
			out = append(out, l.Txs...)
		}
		for _, l := range s.Queue {
			if rng.Intn(100) < 30 {
				out = append(out, l.Txs...)
			}
		}
	} else {
		p, q := h.pool.Content()
		for _, l := range p {
			out = append(out, l...)
		}
		for _, l := range q {
			if rng.Intn(100) < 30 {
				out = append(out, l...)
			}
		}
	}
	for i := 0; i < 3; i++ {
		if tx := h.someKnown(rng); tx != nil && rng.Intn(100) < 50 {
			out = append(out, tx)
		}
	}
	// deterministic order (maps above)
	sort.Slice(out, func(i, j int) bool { return out[i].Hash().Cmp(out[j].Hash()) < 0 })
	return out
}

// advance extends the head by 1-2 blocks and resets the pool.
func (h *hist) advance(rng *rand.Rand, view *legacypool.VerifSnapshot) (old, new_ *blk) {
	old = h.ch.headBlk()
	nb := h.buildChild(rng, old, h.poolTxs(view, rng))
	if rng.Intn(100) < 20 {
		nb = h.buildChild(rng, nb, h.poolTxs(view, rng))
	}
	h.ch.setHead(nb)
	h.logf("advance %d->%d txs=%d gaslimit=%d state=%s", old.header.Number, nb.header.Number, len(nb.block.Transactions()), nb.header.GasLimit, h.stateStr(nb))
	h.pool.Reset(old.header, nb.header)
	return old, nb
}

// reorg switches to a sibling branch forking 1-3 blocks below the head.
func (h *hist) reorg(rng *rand.Rand, view *legacypool.VerifSnapshot) (old, new_ *blk, lost map[common.Hash]*types.Transaction) {
	old = h.ch.headBlk()
	anc := old
	d := 1 + rng.Intn(3)
	var discarded []*types.Transaction
	for i := 0; i < d && anc.parent != nil; i++ {
		discarded = append(discarded, anc.block.Transactions()...)
		anc = anc.parent
	}
	if anc == old {
		return old, old, nil
	}
	depth := int(old.header.Number.Uint64() - anc.header.Number.Uint64())
	length := 1 + rng.Intn(depth+1)
	cands := append(append([]*types.Transaction{}, discarded...), h.poolTxs(view, rng)...)
	tip := anc
	included := map[common.Hash]bool{}
	for i := 0; i < length; i++ {
		tip = h.buildChild(rng, tip, cands)
		for _, tx := range tip.block.Transactions() {
			included[tx.Hash()] = true
		}
	}
	lost = map[common.Hash]*types.Transaction{}
	for _, tx := range discarded {
		if !included[tx.Hash()] {
			lost[tx.Hash()] = tx
		}
	}
	h.mu.Lock()
	if !h.stress {
		h.lost = map[common.Hash]*types.Transaction{}
	}
	for hash, tx := range lost {
		h.lost[hash] = tx
	}
	h.mu.Unlock()
	for a, st := range tip.state {
		if st.Nonce < old.state[a].Nonce {
			h.mu.Lock()
			h.everRegressed[a] = true
			h.mu.Unlock()
		}
	}
	h.ch.setHead(tip)
	h.logf("reorg depth=%d newlen=%d %d->%d lost=%d state=%s", depth, length, old.header.Number, tip.header.Number, len(lost), h.stateStr(tip))
	h.pool.Reset(old.header, tip.header)
	return old, tip, lost
}

func (h *hist) stateStr(b *blk) string {
	var sb strings.Builder
	for i := 0; i < nAccounts; i++ {
		s := b.state[h.e.addrs[i]]
		fmt.Fprintf(&sb, "A%d{n%d b%v d%v} ", i, s.Nonce, s.Balance, s.Delegated)
	}
	return sb.String()
}

// ---------------------------------------------------------------- sequential histories

func (h *hist) runSequential(nOps int) {
	r := h.r
	defer h.pool.Close()
	h.logf("init %s tip=%d", h.stateStr(h.ch.headBlk()), h.gasTip)
	h.prev = h.check("init", true, nil, nil)
	for step := 0; step < nOps && !h.dead; step++ {
		r.Case("C41 sequential history %d step %d", h.idx, step)
		rng := h.rng
		panicked := r.Guard("op", h.witness(), func() {
			switch x := rng.Intn(100); {
			case x < 40:
				h.opAdd([]*types.Transaction{h.genTx(rng, h.prev)})
			case x < 47:
				h.opAdd(h.genFlood(rng))
				r.Count("op_flood", 1)
			case x < 64:
				n := 2 + rng.Intn(5)
				var txs []*types.Transaction
				for i := 0; i < n; i++ {
					txs = append(txs, h.genTx(rng, h.prev))
				}
				h.opAdd(txs)
			case x < 79:
				pre := h.prev
				h.advance(rng, pre)
				r.Count("op_advance", 1)
				h.prev = h.check("advance", true, pre, allProcessed)
				h.afterReset(pre, h.prev, nil)
			case x < 88:
				pre := h.prev
				o, n, lost := h.reorg(rng, pre)
				if o == n {
					return
				}
				r.Count("op_reorg", 1)
				for _, tx := range lost {
					h.reinjectSlots += slotsOf(tx)
				}
				h.prev = h.check("reorg", true, pre, allProcessed)
				h.reinjectSlots = 0
				h.afterReset(pre, h.prev, lost)
			case x < 93:
				pre := h.prev
				v := pick(rng, tipLadder)
				h.logf("settip %d", v)
				h.pool.SetGasTip(big.NewInt(v))
				h.gasTip = v
				r.Count("op_settip", 1)
				h.prev = h.check("settip", false, pre, nil)
			case x < 95:
				h.logf("clear")
				h.pool.Clear()
				r.Count("op_clear", 1)
				h.prev = h.check("clear", false, nil, nil)
				if len(h.prev.All) != 0 || len(h.prev.Pending) != 0 || len(h.prev.Queue) != 0 {
					h.viol("clear:not-empty", "pool not empty after Clear")
				}
			default:
				pre := h.prev
				hd := h.ch.headBlk()
				h.logf("reset same head")
				h.pool.Reset(hd.header, hd.header)
				r.Count("op_reset_same", 1)
				h.prev = h.check("reset-same", true, pre, allProcessed)
			}
		})
		if panicked {
			h.dead = true
		}
	}
	if _, an := h.res.snapshot(); len(an) > 0 {
		r.Count("reserver_anomalies", len(an))
	}
	sig := fmt.Sprintf("ev%v/rp%v/rs%v/dm%v/tp%v/tq%v/sc%v/dr%v/fr%v/ms%v/gd%v", h.fEvict, h.fReplace, h.fResurrect, h.fDemote, h.fTruncP, h.fTruncQ, h.fSetCode, h.fDelegRej, h.fFundsRej, h.fMulti, h.fGasDrop)
	if !(h.fEvict || h.fReplace || h.fResurrect || h.fDemote || h.fTruncP || h.fTruncQ) {
		sig = ""
	}
	r.Eval(sig)
	if r.WantSample() && sig != "" {
		h.mu.Lock()
		l := h.log
		if len(l) > 14 {
			l = l[:14]
		}
		r.Sample(map[string]any{"history": h.idx, "signature": sig, "first_ops": append([]string{}, l...)})
		h.mu.Unlock()
	}
}

// allProcessed marks "every account was processed by promoteExecutables in this cycle".
var allProcessed = map[common.Address]bool{}

// afterReset records evidence about what a head change did.
func (h *hist) afterReset(pre, post *legacypool.VerifSnapshot, lost map[common.Hash]*types.Transaction) {
	if pre == nil || post == nil {
		return
	}
	for hash := range post.All {
		if _, was := pre.All[hash]; !was {
			if _, ok := lost[hash]; ok {
				h.fResurrect = true
				h.r.Count("resurrected_txs", 1)
			}
		}
	}
	if pre.Head != nil && post.Head != nil && post.Head.GasLimit < pre.Head.GasLimit {
		h.fGasDrop = true
	}
}

// ---------------------------------------------------------------- stress histories

// runStress issues operations from several goroutines (adders with and without sync, a head
// mover, readers) and checks the invariants at quiescence. No admission judgement is made here
// (interleavings are not modelled); under -race the detector observes the pool's locking.
func (h *hist) runStress(nAdds int) {
	r := h.r
	defer h.pool.Close()
	h.stress = true
	r.Case("C41 stress history %d", h.idx)
	h.logf("stress init %s", h.stateStr(h.ch.headBlk()))
	var ww, rw sync.WaitGroup // writers, readers
	var done atomic.Bool
	var panics atomic.Int32
	guard := func(name string, f func()) {
		defer ww.Done()
		if r.Guard("stress-"+name, h.witness(), f) {
			panics.Add(1)
		}
	}
	for g := 0; g < 4; g++ {
		ww.Add(1)
		g := g
		go guard("add", func() {
			rng := r.Rand("stress-add", h.idx*16+g)
			for i := 0; i < nAdds; i++ {
				n := 1 + rng.Intn(3)
				var txs []*types.Transaction
				for j := 0; j < n; j++ {
					txs = append(txs, h.genTx(rng, nil))
				}
				sync := rng.Intn(2) == 0
				errs := h.pool.Add(txs, sync)
				for k, tx := range txs {
					h.logf("g%d add sync=%v %s -> %s", g, sync, h.txName(tx), classify(errs[k]))
				}
				r.Count("stress_adds", len(txs))
			}
		})
	}
	ww.Add(1)
	go guard("head", func() {
		rng := r.Rand("stress-head", h.idx)
		for i := 0; i < 4; i++ {
			switch rng.Intn(4) {
			case 0:
				h.reorg(rng, nil)
			case 1:
				v := pick(rng, tipLadder)
				h.logf("settip %d", v)
				h.pool.SetGasTip(big.NewInt(v))
			default:
				h.advance(rng, nil)
			}
			r.Count("stress_headops", 1)
		}
	})
	for g := 0; g < 2; g++ {
		rw.Add(1)
		g := g
		go func() {
			defer rw.Done()
			rng := r.Rand("stress-read", h.idx*16+g)
			for !done.Load() {
				p, _ := h.pool.Content()
				for _, l := range p {
					for _, tx := range l {
						h.pool.Has(tx.Hash())
						h.pool.Get(tx.Hash())
						h.pool.Status(tx.Hash())
					}
				}
				h.pool.Stats()
				h.pool.Pending(randFilter(rng))
				a := h.e.addrs[rng.Intn(nAccounts)]
				h.pool.Nonce(a)
				h.pool.ContentFrom(a)
				r.Count("stress_reads", 1)
			}
		}()
	}
	ww.Wait()
	done.Store(true)
	rw.Wait()
	if panics.Load() > 0 {
		return
	}
	// quiesce: a reset to the same head runs a full maintenance cycle after every earlier request
	hd := h.ch.headBlk()
	h.pool.Reset(hd.header, hd.header)
	h.check("stress-quiescent", true, nil, allProcessed)
	r.Eval(fmt.Sprintf("stress/%d", h.idx%8))
}

func run(r *vrt.Run) {
	r.Rule("each case is one history: a fresh LegacyPool (AccountSlots=2 GlobalSlots=6 AccountQueue=3 GlobalQueue=8, bump 10%) over a harness chain with 5 accounts (one delegated, one named in set-code authorisations); ops drawn per step: Add single/batch (sync), head advance by 1-2 blocks including a random nonce-ordered subset of pooled txs plus balance/nonce/delegation perturbations and gas-limit changes, reorg to a sibling branch 1-3 deep, SetGasTip, Clear, reset to the same head; txs are legacy/1559/set-code aimed at next/pending/queued/gapped/stale nonces with fees around the replacement thresholds and values at the balance edge. Stress histories run 4 adders, a head mover and 2 readers concurrently and are checked at quiescence. A history is non-trivial if it showed eviction, replacement, resurrection, demotion or truncation; signature = vector of those flags plus set-code/delegation-reject/funds-reject/multi-slot/gas-limit-drop flags")
	e := newEnv(r)
	nSeq := r.N(1500, 100000)
	nOps := 40
	nStress := r.N(60, 3000)
	stressAdds := 12
	if r.Race() {
		nSeq = r.N(150, 12000)
		nStress = r.N(30, 1500)
	}
	if v := os.Getenv("C41_HIST"); v != "" { // debugging aid: replay one sequential history verbosely
		i, _ := strconv.Atoi(v)
		h := newHist(e, i, "seq")
		h.verbose = true
		h.runSequential(nOps)
		for _, l := range h.log {
			fmt.Println(l)
		}
		return
	}
	runRegressionScenario(e)
	vrt.Par(nSeq, 0, func(i int) {
		h := newHist(e, i, "seq")
		h.runSequential(nOps)
	})
	vrt.Par(nStress, 4, func(i int) {
		h := newHist(e, i, "stress")
		h.runStress(stressAdds)
	})
	r.Require("add_judged", int64(nSeq)*4)
	r.Require("replacements_accepted", int64(nSeq/20)+1)
	r.Require("replacements_rejected", int64(nSeq/20)+1)
	r.Require("demoted_txs", int64(nSeq/20)+1)
	r.Require("resurrected_txs", int64(nSeq/50)+1)
	r.Require("add_ok_poolfull", int64(nSeq/50)+1)
	r.Require("pending_truncations_seen", 1)
	r.Require("queue_truncations_seen", 1)
	r.Require("stress_adds", int64(nStress)*20)
	r.Assume("the harness chain stub (state chosen by the harness per block) and its own reserver stand in for core.BlockChain and txpool.ReservationTracker")
	r.Assume("naive admission model mirrors the documented order of checks; pool-full insertions (price-heap dependent) are recorded as undetermined and only constrained to the outcomes the code can produce")
	r.Extra("limits", map[string]int{"AccountSlots": accountSlots, "GlobalSlots": globalSlots, "AccountQueue": accountQueue, "GlobalQueue": globalQueue, "PriceBump": priceBump})
}
