package main

import (
	"encoding/binary"
	"fmt"
	"math/big"
	"sync"

	"github.com/ethereum/go-ethereum/common"
	"github.com/ethereum/go-ethereum/core/state"
	"github.com/ethereum/go-ethereum/core/tracing"
	"github.com/ethereum/go-ethereum/core/types"
	"github.com/ethereum/go-ethereum/params"
	"github.com/ethereum/go-ethereum/trie"
	"github.com/holiman/uint256"
)

// acct is the harness's own account state at one block.
type acct struct {
	Nonce     uint64
	Balance   *big.Int
	Delegated bool // has a 7702 delegation designator as code
}

// blk is one block of the harness chain (a tree: siblings allowed).
type blk struct {
	header *types.Header
	block  *types.Block
	parent *blk
	state  map[common.Address]acct
}

// chain implements legacypool.BlockChain over a harness-owned block tree whose per-block
// account state (nonce, balance, delegation) is chosen by the harness.
type chain struct {
	mu     sync.Mutex
	config *params.ChainConfig
	byHash map[common.Hash]*blk
	head   *blk
	gen    *blk
	seq    uint64 // makes sibling headers distinct
}

func newChain(config *params.ChainConfig, genesisState map[common.Address]acct, gasLimit uint64, baseFee int64) *chain {
	c := &chain{config: config, byHash: map[common.Hash]*blk{}}
	h := &types.Header{
		Number:     big.NewInt(0),
		Difficulty: big.NewInt(0),
		GasLimit:   gasLimit,
		BaseFee:    big.NewInt(baseFee),
		Time:       1,
	}
	b := types.NewBlock(h, nil, nil, trie.NewStackTrie(nil))
	g := &blk{header: b.Header(), block: b, state: genesisState}
	c.byHash[b.Hash()] = g
	c.head, c.gen = g, g
	return c
}

func (c *chain) Config() *params.ChainConfig { return c.config }

func (c *chain) CurrentBlock() *types.Header {
	c.mu.Lock()
	defer c.mu.Unlock()
	return c.head.header
}

func (c *chain) Genesis() *types.Block { return c.gen.block }

func (c *chain) GetBlock(hash common.Hash, number uint64) *types.Block {
	c.mu.Lock()
	defer c.mu.Unlock()
	if b, ok := c.byHash[hash]; ok && b.header.Number.Uint64() == number {
		return b.block
	}
	return nil
}

func (c *chain) lookup(hash common.Hash) *blk {
	c.mu.Lock()
	defer c.mu.Unlock()
	return c.byHash[hash]
}

// StateAt materialises the harness account state of the block as a fresh in-memory StateDB.
func (c *chain) StateAt(header *types.Header) (*state.StateDB, error) {
	b := c.lookup(header.Hash())
	if b == nil {
		return nil, fmt.Errorf("unknown block %x", header.Hash())
	}
	sdb, err := state.New(types.EmptyRootHash, state.NewDatabaseForTesting())
	if err != nil {
		return nil, err
	}
	for a, st := range b.state {
		sdb.SetNonce(a, st.Nonce, tracing.NonceChangeUnspecified)
		sdb.SetBalance(a, uint256.MustFromBig(st.Balance), tracing.BalanceChangeUnspecified)
		if st.Delegated {
			sdb.SetCode(a, types.AddressToDelegation(common.Address{0x42}), tracing.CodeChangeUnspecified)
		}
	}
	return sdb, nil
}

// extend creates a child of parent with the given transactions and post-state and registers
// it; it does not move the head.
func (c *chain) extend(parent *blk, txs []*types.Transaction, st map[common.Address]acct, gasLimit uint64, baseFee int64, gasUsed uint64) *blk {
	c.mu.Lock()
	defer c.mu.Unlock()
	c.seq++
	extra := make([]byte, 8)
	binary.BigEndian.PutUint64(extra, c.seq)
	h := &types.Header{
		ParentHash: parent.header.Hash(),
		Number:     new(big.Int).Add(parent.header.Number, big.NewInt(1)),
		Difficulty: big.NewInt(0),
		GasLimit:   gasLimit,
		GasUsed:    gasUsed,
		BaseFee:    big.NewInt(baseFee),
		Time:       parent.header.Time + 12,
		Extra:      extra,
	}
	b := types.NewBlock(h, &types.Body{Transactions: txs}, nil, trie.NewStackTrie(nil))
	n := &blk{header: b.Header(), block: b, parent: parent, state: st}
	c.byHash[b.Hash()] = n
	return n
}

func (c *chain) setHead(b *blk) {
	c.mu.Lock()
	c.head = b
	c.mu.Unlock()
}

func (c *chain) headBlk() *blk {
	c.mu.Lock()
	defer c.mu.Unlock()
	return c.head
}

func copyState(s map[common.Address]acct) map[common.Address]acct {
	o := make(map[common.Address]acct, len(s))
	for a, v := range s {
		o[a] = acct{v.Nonce, new(big.Int).Set(v.Balance), v.Delegated}
	}
	return o
}

// reserver is a txpool.Reserver that records protocol anomalies instead of panicking.
type reserver struct {
	mu        sync.Mutex
	held      map[common.Address]bool
	anomalies []string
}

func newReserver() *reserver { return &reserver{held: map[common.Address]bool{}} }

func (r *reserver) Hold(a common.Address) error {
	r.mu.Lock()
	defer r.mu.Unlock()
	if r.held[a] {
		r.anomalies = append(r.anomalies, fmt.Sprintf("double hold %x", a[:4]))
	}
	r.held[a] = true
	return nil
}

func (r *reserver) Release(a common.Address) error {
	r.mu.Lock()
	defer r.mu.Unlock()
	if !r.held[a] {
		r.anomalies = append(r.anomalies, fmt.Sprintf("release of non-held %x", a[:4]))
	}
	delete(r.held, a)
	return nil
}

func (r *reserver) Has(common.Address) bool { return false }

func (r *reserver) snapshot() (map[common.Address]bool, []string) {
	r.mu.Lock()
	defer r.mu.Unlock()
	h := make(map[common.Address]bool, len(r.held))
	for a := range r.held {
		h[a] = true
	}
	return h, append([]string{}, r.anomalies...)
}
