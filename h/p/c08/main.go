// C08: Merkle proofs are sound and complete.
//
// For random tries (memory-only, committed+reopened, and committed with further uncommitted
// changes) every probed key - present, or absent in several ways - is proven with Trie.Prove
// and verified with VerifyProof: the result must be exactly the shadow map's value. Then the
// proof database is tampered with: every single node removed, random multi-removals, foreign
// additions (nodes of other tries, random blobs under their true hash), the complete genuine
// node set of the reference trie with and without omissions - verification must return an
// error or the true value. Databases with blobs under a WRONG key are only required not to
// panic. Any panic is a violation.
package main

import (
	"bytes"
	"errors"
	"fmt"
	"math/rand"
	"sort"

	"github.com/ethereum/go-ethereum/common"
	"github.com/ethereum/go-ethereum/core/types"
	"github.com/ethereum/go-ethereum/trie"

	"verif/lib/refmpt"
	"verif/lib/trieh"
	"verif/lib/vrt"
)

func main() { vrt.Main("C08", run) }

// proofDB is the harness's proof database (hash -> blob).
type proofDB map[string][]byte

func (p proofDB) Put(k, v []byte) error { p[string(k)] = common.CopyBytes(v); return nil }
func (p proofDB) Delete(k []byte) error { delete(p, string(k)); return nil }
func (p proofDB) Has(k []byte) (bool, error) {
	_, ok := p[string(k)]
	return ok, nil
}
func (p proofDB) Get(k []byte) ([]byte, error) {
	if v, ok := p[string(k)]; ok {
		return v, nil
	}
	return nil, errors.New("not found")
}
func (p proofDB) clone() proofDB {
	c := make(proofDB, len(p))
	for k, v := range p {
		c[k] = v
	}
	return c
}
func (p proofDB) sortedKeys() []string {
	ks := make([]string, 0, len(p))
	for k := range p {
		ks = append(ks, k)
	}
	sort.Strings(ks)
	return ks
}
func (p proofDB) hex() map[string]string {
	m := map[string]string{}
	for k, v := range p {
		m[vrt.Hex([]byte(k))] = vrt.Hex(v)
	}
	return m
}

type tcase struct {
	r     *vrt.Run
	idx   int
	rng   *rand.Rand
	sp    *trieh.Space
	mode  string
	m     map[string][]byte
	ref   *refmpt.Trie
	root  common.Hash
	tr    *trie.Trie
	all   proofDB // complete genuine node set (from the reference trie)
	other proofDB // nodes of an unrelated trie
	cnt   map[string]int
	sigs  map[string]struct{}
	// description of the verification in flight (for panic attribution)
	curKey    []byte
	curTamper string
	curDB     proofDB
}

func (c *tcase) count(n string, k int) { c.cnt[n] += k }

func (c *tcase) witness(key []byte, db proofDB, extra map[string]any) map[string]any {
	w := map[string]any{"trie": c.idx, "space": c.sp.Name, "mode": c.mode, "root": c.root.Hex(), "key": vrt.Hex(key),
		"entries": trieh.HexMap(c.m, 400), "replay": fmt.Sprintf("VERIF_SEED=%d stream \"trie\" index %d", c.r.Seed, c.idx)}
	if db != nil && len(db) <= 64 {
		w["proof_db"] = db.hex()
	}
	for k, v := range extra {
		w[k] = v
	}
	return w
}

// verify runs VerifyProof and classifies the outcome.
func (c *tcase) verify(root common.Hash, key []byte, db proofDB, tamper string) (val []byte, err error) {
	c.curKey, c.curTamper, c.curDB = key, tamper, db
	val, err = trie.VerifyProof(root, key, db)
	c.count("verifications", 1)
	return
}

// judgeTampered applies "error or truth".
func (c *tcase) judgeTampered(key []byte, kind, tamper string, db proofDB) {
	val, err := c.verify(c.root, key, db, tamper)
	truth := c.m[string(key)]
	out := "error"
	if err == nil {
		out = "truth"
		if !bytes.Equal(val, truth) {
			out = "lie"
			c.r.Violation("tampered-proof-lie/"+tamper+"/"+kind, fmt.Sprintf("trie %d (%s): VerifyProof(%x) over a proof database made of genuine nodes with %s returned %x without error, the trie holds %x", c.idx, c.sp.Name, key, tamper, val, truth),
				c.witness(key, db, map[string]any{"tamper": tamper, "returned": vrt.Hex(val), "truth": vrt.Hex(truth)}))
		}
	}
	c.count("tampered_"+out, 1)
	c.sigs[fmt.Sprintf("%s/%s/%s/%s", c.sp.Name, kind, tamper, out)] = struct{}{}
}

func (c *tcase) probe(key []byte, kind string) {
	truth := c.m[string(key)]
	db := proofDB{}
	if err := c.tr.Prove(key, db); err != nil {
		c.r.Violation("prove-error/"+kind, fmt.Sprintf("trie %d: Prove(%x): %v", c.idx, key, err), c.witness(key, nil, nil))
		return
	}
	c.count("proofs", 1)
	c.count("proof_nodes", len(db))
	// proof nodes are keyed by their hash and are nodes of the trie
	for k, v := range db {
		if !bytes.Equal(refmpt.Keccak(v), []byte(k)) {
			c.r.Violation("proof-node-key-vs-hash", fmt.Sprintf("trie %d: Prove(%x) stored a node under a key that is not its Keccak", c.idx, key), c.witness(key, db, nil))
		}
		if _, ok := c.all[k]; !ok {
			c.r.Violation("proof-node-not-in-trie", fmt.Sprintf("trie %d: Prove(%x) emitted node %x that is not a node of the trie", c.idx, key, k), c.witness(key, db, nil))
		}
	}
	// completeness / exactness of the honest proof
	val, err := c.verify(c.root, key, db, "none")
	if err != nil || !bytes.Equal(val, truth) {
		c.r.Violation("honest-proof/"+kind, fmt.Sprintf("trie %d (%s, %s): VerifyProof(Prove(%x)) = (%x, %v), the trie holds %x", c.idx, c.sp.Name, c.mode, key, val, err, truth),
			c.witness(key, db, map[string]any{"returned": vrt.Hex(val), "error": fmt.Sprint(err)}))
		return
	}
	pres := "present"
	if truth == nil {
		pres = "absent"
	}
	c.sigs[fmt.Sprintf("%s/%s/honest/%s/nodes%d", c.sp.Name, kind, pres, min(len(db), 8))] = struct{}{}
	// the complete genuine node set is a valid (bloated) proof for every key
	if val, err := c.verify(c.root, key, c.all, "all-nodes"); err != nil || !bytes.Equal(val, truth) {
		c.r.Violation("all-nodes-proof/"+kind, fmt.Sprintf("trie %d: VerifyProof(%x) over the complete node set = (%x, %v), the trie holds %x", c.idx, key, val, err, truth), c.witness(key, nil, nil))
	}
	// mismatched root: a root that names no node of the database must give an error
	var bad common.Hash
	c.rng.Read(bad[:])
	if v, err := c.verify(bad, key, db, "random-root"); err == nil {
		c.r.Violation("unknown-root-no-error", fmt.Sprintf("trie %d: VerifyProof with a root absent from the proof database returned (%x, nil)", c.idx, v), c.witness(key, db, map[string]any{"bad_root": bad.Hex()}))
	}
	c.count("mismatched_roots", 1)

	keys := db.sortedKeys()
	// every single node removed (exhaustive per proof)
	for _, k := range keys {
		t := db.clone()
		delete(t, k)
		c.judgeTampered(key, kind, "one-node-removed", t)
		// removing a node of the path must not turn a present key into "absent" - covered by
		// error-or-truth; for present keys a missing node can only be an error
	}
	// random multi-removals
	for i := 0; i < 2 && len(keys) > 1; i++ {
		t := db.clone()
		for _, k := range keys {
			if c.rng.Intn(2) == 0 {
				delete(t, k)
			}
		}
		c.judgeTampered(key, kind, "multi-removal", t)
	}
	// foreign additions: nodes of another trie and random blobs, all under their true hash
	t := db.clone()
	for _, k := range c.other.sortedKeys() {
		if c.rng.Intn(3) == 0 {
			t[k] = c.other[k]
		}
	}
	for i := 0; i < 4; i++ {
		b := randomBlob(c.rng, c)
		t[string(refmpt.Keccak(b))] = b
	}
	c.judgeTampered(key, kind, "foreign-additions", t)
	// additions + omissions
	for _, k := range keys {
		if c.rng.Intn(3) == 0 {
			delete(t, k)
		}
	}
	c.judgeTampered(key, kind, "additions+omissions", t)
	// complete node set with omissions
	if c.rng.Intn(4) == 0 {
		t := c.all.clone()
		for _, k := range c.all.sortedKeys() {
			if c.rng.Intn(6) == 0 {
				delete(t, k)
			}
		}
		c.judgeTampered(key, kind, "all-nodes-with-omissions", t)
	}
	// wrong-hash databases: never panic (nothing else is demanded)
	for i := 0; i < 3 && len(keys) > 0; i++ {
		t := db.clone()
		k := keys[c.rng.Intn(len(keys))]
		switch c.rng.Intn(6) {
		case 0:
			t[k] = randomBlob(c.rng, c)
		case 1:
			b := common.CopyBytes(t[k])
			b[c.rng.Intn(len(b))] ^= 1 << uint(c.rng.Intn(8))
			t[k] = b
		case 2:
			t[k] = t[k][:c.rng.Intn(len(t[k]))]
		case 3:
			t[k] = db[keys[c.rng.Intn(len(keys))]] // another node of the same proof
		case 4:
			ak := c.all.sortedKeys()
			t[k] = c.all[ak[c.rng.Intn(len(ak))]] // another node of the same trie
		default:
			t[k] = []byte{}
		}
		c.verify(c.root, key, t, "wrong-hash")
		c.count("wrong_hash_verifications", 1)
	}
}

// randomBlob returns either random bytes or a well-formed node with arbitrary content.
func randomBlob(rng *rand.Rand, c *tcase) []byte {
	switch rng.Intn(4) {
	case 0:
		b := make([]byte, rng.Intn(80))
		rng.Read(b)
		return b
	case 1:
		// a leaf for one of the pool's keys at a random depth with another value
		k := refmpt.KeyToNibbles(c.sp.Key(rng))
		if len(k) > 0 {
			k = k[rng.Intn(len(k)):]
		}
		v := make([]byte, 33+rng.Intn(10))
		rng.Read(v)
		return refmptLeaf(k, v)
	case 2:
		// branch with random hash children
		items := make([][]byte, 17)
		for i := range items {
			items[i] = []byte{0x80}
			if i < 16 && rng.Intn(2) == 0 {
				h := make([]byte, 32)
				rng.Read(h)
				items[i] = append([]byte{0xa0}, h...)
			}
		}
		return rlpList(items...)
	default:
		b := make([]byte, 32+rng.Intn(40))
		rng.Read(b)
		return b
	}
}

func rlpStr(b []byte) []byte {
	if len(b) == 1 && b[0] < 0x80 {
		return b
	}
	if len(b) < 56 {
		return append([]byte{0x80 + byte(len(b))}, b...)
	}
	return append([]byte{0xb8, byte(len(b))}, b...)
}
func rlpList(items ...[]byte) []byte {
	var body []byte
	for _, it := range items {
		body = append(body, it...)
	}
	if len(body) < 56 {
		return append([]byte{0xc0 + byte(len(body))}, body...)
	}
	if len(body) < 256 {
		return append([]byte{0xf8, byte(len(body))}, body...)
	}
	return append([]byte{0xf9, byte(len(body) >> 8), byte(len(body))}, body...)
}
func refmptLeaf(nib, v []byte) []byte { return rlpList(rlpStr(refmpt.HP(nib, true)), rlpStr(v)) }

func inc(k []byte, d int) []byte {
	o := common.CopyBytes(k)
	for i := len(o) - 1; i >= 0; i-- {
		o[i] += byte(d)
		if (d > 0 && o[i] != 0) || (d < 0 && o[i] != 0xff) {
			break
		}
	}
	return o
}

func runTrie(r *vrt.Run, idx int) {
	rng := r.Rand("trie", idx)
	kind := trieh.SpaceKinds[idx%len(trieh.SpaceKinds)]
	size := []int{1, 2, 3, 8, 30, 120, 500, 2000}[rng.Intn(8)]
	if r.Quick() && size > 500 && rng.Intn(4) != 0 {
		size = 120
	}
	c := &tcase{r: r, idx: idx, rng: rng, sp: trieh.NewSpace(rng, kind, size+size/3+2), m: map[string][]byte{}, cnt: map[string]int{}, sigs: map[string]struct{}{}}
	c.mode = []string{"memory", "committed", "committed+dirty"}[rng.Intn(3)]
	r.Case("C08 trie %d space=%s size=%d mode=%s", idx, kind, size, c.mode)

	perr, stack := vrt.Recover(func() {
		store := trieh.NewStore()
		tr := trie.NewEmpty(store)
		for i := 0; i < size && i < len(c.sp.Keys); i++ {
			k, v := c.sp.Keys[i], c.sp.Val(rng)
			tr.MustUpdate(k, v)
			c.m[string(k)] = v
		}
		if c.mode != "memory" {
			root, set := tr.Commit(false)
			store.Apply(set)
			var err error
			if tr, err = trie.New(trie.TrieID(root), store); err != nil {
				r.Violation("reopen-error", err.Error(), nil)
				return
			}
			if c.mode == "committed+dirty" {
				for i := 0; i < 1+size/4; i++ {
					k := c.sp.Key(rng)
					if rng.Intn(2) == 0 {
						v := c.sp.Val(rng)
						tr.MustUpdate(k, v)
						c.m[string(k)] = v
					} else {
						tr.MustDelete(k)
						delete(c.m, string(k))
					}
				}
			}
		}
		c.tr = tr
		c.ref = refmpt.Build(c.m)
		c.root = tr.Hash()
		if !bytes.Equal(c.root[:], c.ref.Root) {
			r.Violation("root-vs-reference", fmt.Sprintf("trie %d root %x reference %x", idx, c.root, c.ref.Root), c.witness(nil, nil, nil))
			return
		}
		c.all = proofDB{}
		for h, b := range c.ref.HashedNodes() {
			c.all[h] = b
		}
		// an unrelated trie over the same key pool
		om := map[string][]byte{}
		for i := 0; i < 1+rng.Intn(20); i++ {
			om[string(c.sp.Key(rng))] = c.sp.Val(rng)
		}
		c.other = proofDB{}
		for h, b := range refmpt.Build(om).HashedNodes() {
			if _, ok := c.all[h]; !ok {
				c.other[h] = b
			}
		}
		if len(c.m) == 0 {
			// empty trie: Prove emits nothing, verification of any key fails on the missing root
			db := proofDB{}
			k := c.sp.Key(rng)
			if err := tr.Prove(k, db); err != nil || len(db) != 0 {
				r.Violation("empty-trie-prove", fmt.Sprintf("Prove on the empty trie: err=%v nodes=%d", err, len(db)), nil)
			}
			if v, err := c.verify(types.EmptyRootHash, k, db, "empty-trie"); err == nil && v != nil {
				r.Violation("empty-trie-lie", fmt.Sprintf("VerifyProof on the empty trie returned %x", v), nil)
			}
			c.sigs[c.sp.Name+"/empty-trie"] = struct{}{}
			return
		}
		// probe set
		type pk struct {
			k    []byte
			kind string
		}
		var probes []pk
		present := c.ref.Sorted
		if len(present) <= 200 {
			for _, kv := range present {
				probes = append(probes, pk{kv.K, "present"})
			}
		} else {
			for i := 0; i < 200; i++ {
				probes = append(probes, pk{present[rng.Intn(len(present))].K, "present"})
			}
		}
		nAbs := 8 + len(probes)/4
		for i := 0; i < nAbs; i++ {
			base := present[rng.Intn(len(present))].K
			var k []byte
			kd := ""
			switch rng.Intn(7) {
			case 0:
				k, kd = make([]byte, len(base)), "random"
				rng.Read(k)
			case 1:
				k, kd = inc(base, 1), "neighbour+1"
			case 2:
				k, kd = inc(base, -1), "neighbour-1"
			case 3:
				if len(base) > 0 {
					k, kd = base[:rng.Intn(len(base))], "prefix"
				} else {
					k, kd = []byte{0}, "extension"
				}
			case 4:
				k, kd = append(common.CopyBytes(base), byte(rng.Intn(256))), "extension"
			case 5:
				k, kd = c.sp.Key(rng), "pool"
			default:
				// flip one nibble at a random depth
				k, kd = common.CopyBytes(base), "nibble-flip"
				if len(k) > 0 {
					p := rng.Intn(2 * len(k))
					k[p/2] ^= byte(1+rng.Intn(15)) << (4 * uint(1-p%2))
				}
			}
			if _, ok := c.m[string(k)]; ok {
				kd = "present"
			}
			probes = append(probes, pk{k, kd})
		}
		for _, p := range probes {
			c.probe(p.k, p.kind)
			if p.kind == "present" {
				c.count("probes_present", 1)
			} else {
				c.count("probes_absent", 1)
				c.count("probes_absent_"+p.kind, 1)
			}
		}
	})
	if perr != nil {
		r.Violation("C08:panic:"+vrt.PanicSite(stack), fmt.Sprintf("trie %d: panic during VerifyProof/Prove (tamper %s): %v\n%s", idx, c.curTamper, perr, stack),
			c.witness(c.curKey, c.curDB, map[string]any{"tamper": c.curTamper}))
	}
	for k, v := range c.cnt {
		r.Count(k, v)
	}
	r.Count("tries", 1)
	r.Count("tries_"+c.mode, 1)
	for s := range c.sigs {
		r.EvalN(s, 0)
	}
	r.EvalN("", c.cnt["verifications"])
	if r.WantSample() && len(c.m) > 1 && len(c.m) < 6 {
		k := c.ref.Sorted[0].K
		db := proofDB{}
		c.tr.Prove(k, db)
		r.Sample(c.witness(k, db, map[string]any{"value": vrt.Hex(c.m[string(k)])}))
	}
}

func run(r *vrt.Run) {
	r.Rule("a case is one VerifyProof call; tries are random over the key families of C06 (1..2000 entries; memory-only / committed+reopened / committed with uncommitted changes); probed keys: all present keys (<=200 entries, else 200 sampled), absent keys (random, key+-1, proper prefix, extension, unused pool key, one nibble flipped); proof databases: honest, each single node removed, random multi-removals, foreign additions, additions+omissions, the complete genuine node set with/without omissions, random root, wrong-hash blobs (panic check only). non-trivial signature = (key family, key kind, tamper kind, outcome class[, proof length])")
	n := r.N(800, 20000)
	vrt.Par(n, 0, func(i int) { runTrie(r, i) })
	r.Require("tampered_error", 1000)
	r.Require("tampered_truth", 1000)
	r.Require("probes_absent_prefix", 20)
	r.Require("probes_absent_extension", 20)
	r.Require("probes_absent_neighbour+1", 20)
	r.Require("wrong_hash_verifications", 1000)
	r.Assume("shadow map as the truth; lib/refmpt for the complete genuine node set and the root cross-check")
	r.Assume("proof databases with a blob stored under a key that is not its Keccak are outside the soundness claim (VerifyProof trusts the database's keying); they are only required not to panic")
}
