// Reproducer for the C16 known findings (no oracle code): children of a flattened layer that
// were not on the capped path keep a parent pointer to the replaced diff layer.
//
//	go run -tags verif ./p/c16/repro
//
// The second part (wrongValue) shows the same root cause returning a wrong value silently.
//
// Layers carry no state; one trie node N (path "", account trie) is written by the first
// layer so that every later root must be able to read it.
package main

import (
	"fmt"
	"os"

	"github.com/ethereum/go-ethereum/common"
	"github.com/ethereum/go-ethereum/core/rawdb"
	"github.com/ethereum/go-ethereum/core/types"
	"github.com/ethereum/go-ethereum/crypto"
	"github.com/ethereum/go-ethereum/log"
	"github.com/ethereum/go-ethereum/trie/trienode"
	"github.com/ethereum/go-ethereum/triedb/pathdb"
)

func main() {
	log.SetDefault(log.NewLogger(log.DiscardHandler()))
	dir, _ := os.MkdirTemp("/dev/shm", "c16-repro-")
	defer os.RemoveAll(dir)
	disk, err := rawdb.Open(rawdb.NewMemoryDatabase(), rawdb.OpenOptions{Ancient: dir})
	if err != nil {
		panic(err)
	}
	defer pathdb.VerifSetMaxDiffLayers(pathdb.VerifSetMaxDiffLayers(2)) // keep 2 diff layers (production: 128)
	db := pathdb.New(disk, &pathdb.Config{NoAsyncFlush: true, NoAsyncGeneration: true, WriteBufferSize: 1 << 20}, false)
	defer db.Close()

	blob := []byte("a trie node blob that is longer than thirty-two bytes, content irrelevant")
	hash := crypto.Keccak256Hash(blob)
	root := func(b byte) common.Hash { return common.Hash{b} }
	update := func(r, parent common.Hash, blk uint64, withNode bool) error {
		nodes := trienode.NewMergedNodeSet()
		if withNode {
			set := trienode.NewNodeSet(common.Hash{})
			set.AddNode(nil, trienode.NewNodeWithPrev(hash, blob, nil))
			nodes.Merge(set)
		}
		return db.Update(r, parent, blk, nodes, pathdb.NewStateSetWithOrigin(nil, nil, nil, nil, false))
	}
	must := func(what string, err error) {
		fmt.Printf("%-28s -> %v\n", what, err)
		if err != nil {
			panic("unexpected")
		}
	}
	A, B, C1, C2, D1, D2 := root(0xa), root(0xb), root(0xc1), root(0xc2), root(0xd1), root(0xd2)
	must("Update(A, empty) [writes N]", update(A, types.EmptyRootHash, 1, true))
	must("Update(B, A)", update(B, A, 2, false))
	must("Update(C1, B)", update(C1, B, 3, false)) // flattens A
	must("Update(C2, B)  (fork)", update(C2, B, 3, false))
	must("Update(D1, C1)", update(D1, C1, 4, false)) // flattens B; C1 is re-linked, C2 is not

	base, layers := db.VerifLayerTreeShape()
	fmt.Printf("\ndisk layer root %x, registered layers:\n", base[:1])
	for _, l := range layers {
		fmt.Printf("  root %x disk=%v parentRoot=%x parentIsDiskLayerObject=%v\n", l.Root[:1], l.Disk, l.Parent[:1], l.ParentIsDisk)
	}
	fmt.Println("\nreading node N (written by A, now in the disk layer) at every registered root:")
	for _, r := range []common.Hash{B, C1, D1, C2} {
		nr, err := db.NodeReader(r)
		if err != nil {
			fmt.Printf("  NodeReader(%x): %v\n", r[:1], err)
			continue
		}
		got, err := nr.Node(common.Hash{}, nil, hash)
		fmt.Printf("  NodeReader(%x).Node(N): %d bytes, err = %v\n", r[:1], len(got), err)
	}
	fmt.Println("\nextending the fork (its depth reaches maxDiffLayers):")
	fmt.Printf("Update(D2, C2)               -> %v\n", update(D2, C2, 4, false))

	wrongValue()
}

// wrongValue shows the third symptom: a flat read at a live root silently returns the value
// of ANOTHER state. maxDiffLayers=3. After B was flattened, C2 (sibling of the re-linked C1)
// still points to the replaced diff layer object of B, whose parent is the stale former disk
// layer with root A. A layer X added on top of C2 afterwards is therefore registered by
// layerTree.fillAncestors in descendants[A]. If the chain returns to root A meanwhile (layer
// A' = "B with the account set back", a child of the new disk layer B), the lookup index
// takes A' for an ancestor of X and serves the account from it.
func wrongValue() {
	fmt.Println("\n---- third symptom: wrong value (maxDiffLayers=3) ----")
	dir, _ := os.MkdirTemp("/dev/shm", "c16-repro-")
	defer os.RemoveAll(dir)
	disk, err := rawdb.Open(rawdb.NewMemoryDatabase(), rawdb.OpenOptions{Ancient: dir})
	if err != nil {
		panic(err)
	}
	pathdb.VerifSetMaxDiffLayers(3)
	db := pathdb.New(disk, &pathdb.Config{NoAsyncFlush: true, NoAsyncGeneration: true, WriteBufferSize: 1 << 20}, false)
	defer db.Close()

	addr := common.Address{0x11}
	key := crypto.Keccak256Hash(addr[:])
	v1, v2 := []byte("account-value-in-state-A"), []byte("account-value-in-state-B")
	root := func(b byte) common.Hash { return common.Hash{b} }
	// update with an optional write of the account (val) over its previous value (prev)
	update := func(r, parent common.Hash, blk uint64, val, prev []byte) error {
		var accounts map[common.Hash][]byte
		var origin map[common.Address][]byte
		if val != nil {
			accounts = map[common.Hash][]byte{key: val}
			origin = map[common.Address][]byte{addr: prev}
		}
		return db.Update(r, parent, blk, trienode.NewMergedNodeSet(), pathdb.NewStateSetWithOrigin(accounts, nil, origin, nil, false))
	}
	must := func(what string, err error) {
		fmt.Printf("%-44s -> %v\n", what, err)
		if err != nil {
			panic("unexpected")
		}
	}
	A, B, C1, C2, D1, E1, X := root(0xa), root(0xb), root(0xc1), root(0xc2), root(0xd1), root(0xe1), root(0xf2)
	must("Update(A, empty)   [account = v1]", update(A, types.EmptyRootHash, 1, v1, nil))
	must("Update(B, A)       [account = v2]", update(B, A, 2, v2, v1))
	must("Update(C1, B)", update(C1, B, 3, nil, nil))
	must("Update(C2, B)      (fork)", update(C2, B, 3, nil, nil))
	must("Update(D1, C1)     (flattens A)", update(D1, C1, 4, nil, nil))
	must("Update(E1, D1)     (flattens B, C2 not re-linked)", update(E1, D1, 5, nil, nil))
	must("Update(A, B)       [account = v1 again: root A]", update(A, B, 3, v1, v2))
	must("Update(X, C2)      (does not touch the account)", update(X, C2, 4, nil, nil))

	base, layers := db.VerifLayerTreeShape()
	fmt.Printf("\ndisk layer root %x, registered layers:\n", base[:1])
	for _, l := range layers {
		fmt.Printf("  root %x disk=%v parentRoot=%x parentIsDiskLayerObject=%v\n", l.Root[:1], l.Disk, l.Parent[:1], l.ParentIsDisk)
	}
	fmt.Println("\nreading the account (v2 since B; only the layer with root A, a child of B, sets it back to v1):")
	for _, r := range []common.Hash{B, C1, D1, E1, C2, X, A} {
		sr, err := db.StateReader(r)
		if err != nil {
			fmt.Printf("  StateReader(%x): %v\n", r[:1], err)
			continue
		}
		got, err := sr.(interface {
			AccountRLP(common.Hash) ([]byte, error)
		}).AccountRLP(key)
		want := v2
		if r == A {
			want = v1
		}
		verdict := "ok"
		if err != nil || string(got) != string(want) {
			verdict = "WRONG, want " + string(want)
		}
		fmt.Printf("  StateReader(%x).AccountRLP: %q, err = %v   %s\n", r[:1], got, err, verdict)
	}
}
