package main

import (
	"fmt"
	"sort"

	"github.com/ethereum/go-ethereum/common"

	"verif/lib/statehist"
)

// mnode is one live diff layer of the model tree.
type mnode struct {
	st     *statehist.State
	parent common.Hash     // root of the parent (a live diff or the base)
	edge   *statehist.Edge // the transition this layer was created with
	// staleLink: this layer was a child of a layer that has been flattened into the disk
	// layer while it was NOT the layer on the capped path. In the implementation such a
	// layer keeps its parent pointer to the replaced diff layer object, whose own parent is
	// the stale former disk layer (see layerTree.cap: only `diff.parent` is re-linked).
	staleLink bool
	// staleParentEdge is the transition of that flattened parent: the replaced diff layer
	// object still serves the nodes it modified.
	staleParentEdge *statehist.Edge
	// staleRoots: roots of the layer objects that the implementation still reaches through
	// the stale pointer below the replaced parent object: the former disk layer (and, if more
	// than one layer was flattened at once, the flattened layers below the parent).
	staleRoots []common.Hash
	seq        int // insertion order (= order of the entries in the lookup index lists)
}

// model mirrors the exported behaviour of pathdb's layer tree: which roots are live, how
// they are linked, and in which order transitions were merged into the disk layer.
type model struct {
	max       int // maxDiffLayers
	base      *statehist.State
	diffs     map[common.Hash]*mnode
	flattened []*statehist.Edge // transitions merged into the disk layer, oldest first
	caps      int               // number of flatten events
	// tainted: the last operation made the implementation walk from a stale-linked layer to
	// the replaced (already flattened) diff layer object and try to persist it again; the
	// outcome is outside the model (see fpSiblingOp in main.go) and the case ends.
	tainted bool
	forks   int
	skipped int
	seq     int
	// phantom mirrors the wrong entries of layerTree.descendants: fillAncestors of a layer
	// that is inserted above a stale-linked layer F walks F's stale pointer and registers
	// the new layer as a descendant of the roots in F.staleRoots (states that are not among
	// its ancestors any more, or never were on its branch: the former disk layer). An entry
	// descendants[r] is deleted only when a layer with root r is removed from the tree (or on
	// a full commit). phantom[r][s]: the implementation believes that s descends from r.
	phantom map[common.Hash]map[common.Hash]bool
}

func newModel(genesis *statehist.State, max int) *model {
	return &model{max: max, base: genesis, diffs: map[common.Hash]*mnode{}, phantom: map[common.Hash]map[common.Hash]bool{}}
}

func (m *model) live(root common.Hash) bool {
	if root == m.base.Root {
		return true
	}
	_, ok := m.diffs[root]
	return ok
}

func (m *model) isDiff(root common.Hash) bool { _, ok := m.diffs[root]; return ok }

// depth returns the number of diff layers from root down to the base (0 for the base).
func (m *model) depth(root common.Hash) int {
	d := 0
	for root != m.base.Root {
		n := m.diffs[root]
		if n == nil {
			return -1
		}
		d++
		root = n.parent
	}
	return d
}

// viaStale reports whether the parent chain of root passes through a stale link.
func (m *model) viaStale(root common.Hash) bool {
	for root != m.base.Root {
		n := m.diffs[root]
		if n == nil {
			return false
		}
		if n.staleLink {
			return true
		}
		root = n.parent
	}
	return false
}

func (m *model) children(root common.Hash) []common.Hash {
	var out []common.Hash
	for r, n := range m.diffs {
		if n.parent == root {
			out = append(out, r)
		}
	}
	return out
}

type expect int

const (
	expNil    expect = iota // must return nil
	expErr                  // must return an error and change nothing
	expEither               // outside the modelled contract
)

// update mirrors Database.Update(root, parent, ...). It returns the expected outcome class
// and a short tag of what happened.
func (m *model) update(e *statehist.Edge) (expect, string) {
	root, parent := e.Child.Root, e.Parent.Root
	if root == parent {
		return expErr, "cycle"
	}
	if m.live(root) {
		// duplicate root: insertion skipped silently, then cap(root) runs on the existing
		// layer, which fails if that layer is the disk layer.
		m.skipped++
		if root == m.base.Root {
			return expErr, "dup-base"
		}
		m.cap(root, m.max)
		if m.tainted {
			return expEither, "dup-on-stale-link"
		}
		return expNil, "dup"
	}
	if !m.live(parent) {
		return expErr, "orphan"
	}
	if len(m.children(parent)) > 0 {
		m.forks++
	}
	m.seq++
	m.diffs[root] = &mnode{st: e.Child, parent: parent, edge: e, seq: m.seq}
	if f := m.staleAncestor(root); f != nil {
		for _, r := range f.staleRoots {
			if m.phantom[r] == nil {
				m.phantom[r] = map[common.Hash]bool{}
			}
			m.phantom[r][root] = true
		}
	}
	m.cap(root, m.max)
	if m.tainted {
		return expEither, "add-on-stale-link"
	}
	return expNil, "add"
}

// commit mirrors Database.Commit(root).
func (m *model) commit(root common.Hash) (expect, string) {
	if !m.isDiff(root) {
		return expErr, "commit-nondiff"
	}
	if m.viaStale(root) {
		m.tainted = true
		return expEither, "commit-via-stale-link"
	}
	m.cap(root, 0)
	return expNil, "commit"
}

// path returns the diff nodes from the one just above the base up to root.
func (m *model) path(root common.Hash) []*mnode {
	var p []*mnode
	for root != m.base.Root {
		n := m.diffs[root]
		p = append([]*mnode{n}, p...)
		root = n.parent
	}
	return p
}

func (m *model) cap(root common.Hash, layers int) {
	diff := m.diffs[root]
	if diff == nil {
		panic("model: cap on non-diff")
	}
	if layers == 0 {
		for _, n := range m.path(root) {
			m.flattened = append(m.flattened, n.edge)
		}
		m.base = diff.st
		m.diffs = map[common.Hash]*mnode{}
		m.phantom = map[common.Hash]map[common.Hash]bool{}
		m.caps++
		return
	}
	for i := 0; i < layers-1; i++ {
		p := m.diffs[diff.parent]
		if p == nil {
			return // reached the disk layer: too shallow
		}
		diff = p
	}
	if diff.parent == m.base.Root {
		if diff.staleLink {
			// the implementation still sees the replaced diff layer below this one
			m.tainted = true
		}
		return
	}
	target := m.diffs[diff.parent] // the layer to flatten (with everything below it)
	for _, n := range m.path(target.st.Root) {
		m.flattened = append(m.flattened, n.edge)
	}
	// survivors: descendants of target
	keep := map[common.Hash]*mnode{}
	var walk func(r common.Hash)
	walk = func(r common.Hash) {
		for c, n := range m.diffs {
			if n.parent == r {
				if _, ok := keep[c]; !ok {
					keep[c] = n
					walk(c)
				}
			}
		}
	}
	walk(target.st.Root)
	staleRoots := []common.Hash{m.base.Root}
	for _, n := range m.path(target.st.Root) {
		if n != target {
			staleRoots = append(staleRoots, n.st.Root)
		}
	}
	for c, n := range keep {
		if n.parent == target.st.Root && n != diff {
			n.staleLink = true
			n.staleParentEdge = target.edge
			n.staleRoots = staleRoots
			_ = c
		}
	}
	// descendants[r] is deleted for every removed layer: the old disk layer and every diff
	// layer that is neither a survivor nor the flattened target itself
	delete(m.phantom, m.base.Root)
	for r := range m.diffs {
		if _, ok := keep[r]; !ok && r != target.st.Root {
			delete(m.phantom, r)
		}
	}
	m.base = target.st
	m.diffs = keep
	m.caps++
}

func (m *model) String() string {
	return fmt.Sprintf("base=%d diffs=%d caps=%d forks=%d", m.base.ID, len(m.diffs), m.caps, m.forks)
}

// source infers where the implementation has to take the value of a key from when read
// at root: "diff" (some live diff layer on the path modified it), else the disk layer:
// "buffer" / "frozen" (modified by one of the transitions still aggregated in the live /
// frozen write buffer) or "disk".
func (m *model) source(root common.Hash, modifies func(e *statehist.Edge) bool, bufLayers, frozenLayers int) string {
	for root != m.base.Root {
		n := m.diffs[root]
		if n == nil {
			return "?"
		}
		if modifies(n.edge) {
			return "diff"
		}
		root = n.parent
	}
	f := m.flattened
	for i := 0; i < bufLayers && i < len(f); i++ {
		if modifies(f[len(f)-1-i]) {
			return "buffer"
		}
	}
	for i := bufLayers; i < bufLayers+frozenLayers && i < len(f); i++ {
		if modifies(f[len(f)-1-i]) {
			return "frozen"
		}
	}
	return "disk"
}

// staleNodeReadFails predicts, for a live root whose parent chain passes a stale link,
// whether a node read must hit the stale former disk layer: it does unless a diff layer on
// the path from root down to the stale-linked layer, or the replaced (flattened) parent
// object itself, modified the node.
func (m *model) staleNodeReadFails(root common.Hash, modifies func(e *statehist.Edge) bool) bool {
	for root != m.base.Root {
		n := m.diffs[root]
		if n == nil {
			return false
		}
		if modifies(n.edge) {
			return false
		}
		if n.staleLink {
			return !modifies(n.staleParentEdge)
		}
		root = n.parent
	}
	return false
}

// staleAncestor returns the stale-linked layer strictly below root on its parent chain.
func (m *model) staleAncestor(root common.Hash) *mnode {
	first := true
	for root != m.base.Root {
		n := m.diffs[root]
		if n == nil {
			return nil
		}
		if n.staleLink && !first {
			return n
		}
		first = false
		root = n.parent
	}
	return nil
}

// phantomTip emulates lookup.accountTip / storageTip for a flat read at root on the
// descendants map as the stale links left it: the entries of a key are the live diff layers
// that modified it, newest first; the first one that is root itself, an ancestor of root, or
// a layer of which root is wrongly registered as a descendant (phantom) is taken. It
// returns that layer only in the last case (the index resolves the key to a layer that is
// not on the path of root), nil otherwise. For a root that is not live any more (retained
// reader) the ancestry is unknown: the newest phantom candidate is returned.
func (m *model) phantomTip(root common.Hash, modifies func(e *statehist.Edge) bool) *mnode {
	var cand []*mnode
	for _, n := range m.diffs {
		if modifies(n.edge) {
			cand = append(cand, n)
		}
	}
	sort.Slice(cand, func(i, j int) bool { return cand[i].seq > cand[j].seq })
	anc := map[common.Hash]bool{}
	if m.isDiff(root) {
		for _, n := range m.path(root) {
			anc[n.st.Root] = true
		}
	}
	for _, n := range cand {
		if anc[n.st.Root] {
			return nil
		}
		if m.phantom[n.st.Root][root] {
			return n
		}
	}
	return nil
}
