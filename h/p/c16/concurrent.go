package main

import (
	"bytes"
	"fmt"
	"math/rand"
	"runtime"
	"strings"
	"sync"
	"sync/atomic"

	"github.com/ethereum/go-ethereum/common"
	"github.com/ethereum/go-ethereum/triedb/database"
	"github.com/ethereum/go-ethereum/triedb/pathdb"

	"verif/lib/refmpt"
	"verif/lib/statehist"
	"verif/lib/vrt"
)

// snap is the model's view after k writer operations.
type snap struct {
	base  common.Hash
	diffs map[common.Hash]bool // live diff layers
	stale map[common.Hash]bool // live diff layers whose parent chain passes a stale link
	caps  int
}

func takeSnap(m *model) *snap {
	s := &snap{base: m.base.Root, diffs: make(map[common.Hash]bool, len(m.diffs)), stale: map[common.Hash]bool{}, caps: m.caps}
	for r := range m.diffs {
		s.diffs[r] = true
		if m.viaStale(r) {
			s.stale[r] = true
		}
	}
	return s
}

// view is what the writer publishes for the readers (immutable once published).
type view struct {
	roots []*statehist.State // recent states, live and dropped
	accts []common.Hash
	slots []statehist.SlotKey
	nodes []statehist.NodeKey
}

// rec is one reader batch: readers obtained at epoch e1, reads finished at epoch e2.
type rec struct {
	st         *statehist.State
	e1, e2     uint64
	srErr      bool // StateReader failed
	nrErr      bool // NodeReader failed
	flatErrs   int  // account/storage read errors
	nodeErrs   int  // node read errors
	firstErr   string
	reads      int
	retainedIt int // how many earlier batches used the same reader objects
}

type session struct {
	d     *dut
	epoch atomic.Uint64
	view  atomic.Pointer[view]
	snaps []*snap
	done  atomic.Bool
}

func (s *session) publish(recent []*statehist.State) {
	d := s.d
	d.refreshKeys()
	v := &view{roots: append([]*statehist.State{}, recent...), accts: d.accts, slots: d.slots, nodes: d.nodes}
	s.view.Store(v)
}

// wrong reports a wrong value observed by a concurrent reader. A wrong value is a violation
// regardless of liveness: no reader of root R may ever return data of another state.
func (s *session) wrong(kind string, st *statehist.State, key string, got, want []byte) {
	// (called from reader goroutines: must not touch the writer's op log / model)
	s.d.viol("wrong-value:"+kind+":concurrent", fmt.Sprintf("%s %s read concurrently at state %d: got %x want %x", kind, key, st.ID, got, want), map[string]any{"config": s.d.cfg, "root": st.Root.Hex(), "key": key, "epoch": s.epoch.Load()})
}

func (s *session) reader(id int, rng *rand.Rand, out *[]rec) {
	var (
		held    *statehist.State
		sr      database.StateReader
		nr      database.NodeReader
		heldE1  uint64
		heldCnt int
	)
	for !s.done.Load() {
		v := s.view.Load()
		r := rec{}
		if held != nil && rng.Intn(3) != 0 && heldCnt < 6 {
			// keep using the retained readers
			r.st, r.e1, r.retainedIt = held, heldE1, heldCnt
			heldCnt++
		} else {
			st := v.roots[rng.Intn(len(v.roots))]
			if rng.Intn(2) == 0 { // bias towards the most recent states
				st = v.roots[len(v.roots)-1-rng.Intn(min(4, len(v.roots)))]
			}
			r.st = st
			r.e1 = s.epoch.Load()
			var e1, e2 error
			sr, e1 = s.d.db.StateReader(st.Root)
			nr, e2 = s.d.db.NodeReader(st.Root)
			r.srErr, r.nrErr = e1 != nil, e2 != nil
			if e1 != nil || e2 != nil {
				r.e2 = s.epoch.Load()
				*out = append(*out, r)
				held = nil
				continue
			}
			held, heldE1, heldCnt = st, r.e1, 1
		}
		st := r.st
		ar := sr.(acctReader)
		n := 3 + rng.Intn(8)
		for i := 0; i < n; i++ {
			switch rng.Intn(3) {
			case 0:
				if len(v.accts) == 0 {
					continue
				}
				k := v.accts[rng.Intn(len(v.accts))]
				got, err := ar.AccountRLP(k)
				r.reads++
				if err != nil {
					r.flatErrs++
					if r.firstErr == "" {
						r.firstErr = "account: " + err.Error()
					}
				} else if want := st.Account(k); !bytes.Equal(got, want) {
					s.wrong("account", st, k.Hex(), got, want)
				}
			case 1:
				if len(v.slots) == 0 {
					continue
				}
				k := v.slots[rng.Intn(len(v.slots))]
				got, err := sr.Storage(k.Addr, k.Slot)
				r.reads++
				if err != nil {
					r.flatErrs++
					if r.firstErr == "" {
						r.firstErr = "storage: " + err.Error()
					}
				} else if want := st.Storage(k.Addr, k.Slot); !bytes.Equal(got, want) {
					s.wrong("storage", st, k.Addr.Hex()+"/"+k.Slot.Hex(), got, want)
				}
			default:
				if len(v.nodes) == 0 {
					continue
				}
				k := v.nodes[rng.Intn(len(v.nodes))]
				want := st.Node(k.Owner, []byte(k.Path))
				if want == nil {
					// probe with the hash of another recent state's node at this position
					other := v.roots[rng.Intn(len(v.roots))].Node(k.Owner, []byte(k.Path))
					if other == nil {
						continue
					}
					got, err := nr.Node(k.Owner, []byte(k.Path), common.BytesToHash(refmpt.Keccak(other)))
					r.reads++
					if err == nil && len(got) > 0 {
						s.wrong("node-absent", st, fmt.Sprintf("%x/%x", k.Owner, k.Path), got, nil)
					}
					continue
				}
				got, err := nr.Node(k.Owner, []byte(k.Path), common.BytesToHash(refmpt.Keccak(want)))
				r.reads++
				if err != nil {
					r.nodeErrs++
					if r.firstErr == "" {
						r.firstErr = "node: " + err.Error()
					}
				} else if !bytes.Equal(got, want) {
					s.wrong("node", st, fmt.Sprintf("%x/%x", k.Owner, k.Path), got, want)
				}
			}
		}
		r.e2 = s.epoch.Load()
		*out = append(*out, r)
		if id%2 == 0 {
			runtime.Gosched()
		}
	}
}

// classify judges the recorded batches once all snapshots are known.
func (s *session) classify(recs []rec) (overlapOp, overlapFlatten int) {
	d := s.d
	for _, r := range recs {
		lo, hi := int(r.e1/2), int((r.e2+1)/2)
		if hi >= len(s.snaps) {
			hi = len(s.snaps) - 1
		}
		if lo > hi {
			lo = hi
		}
		root := r.st.Root
		liveAll, deadAll, diffAll, anyStale := true, true, true, false
		for k := lo; k <= hi; k++ {
			sn := s.snaps[k]
			isDiff := sn.diffs[root]
			live := isDiff || sn.base == root
			liveAll = liveAll && live
			deadAll = deadAll && !live
			diffAll = diffAll && isDiff
			anyStale = anyStale || sn.stale[root]
		}
		noFlatten := s.snaps[lo].caps == s.snaps[hi].caps
		if r.e1 != r.e2 || r.e1%2 == 1 {
			overlapOp++
			if !noFlatten {
				overlapFlatten++
			}
		}
		w := func() map[string]any {
			return d.witness(map[string]any{"root": root.Hex(), "state": r.st.ID, "epoch_from": r.e1, "epoch_to": r.e2, "first_error": r.firstErr})
		}
		if r.srErr || r.nrErr {
			if liveAll {
				d.viol("availability:live-root-unreadable:concurrent", fmt.Sprintf("state %d was live during the whole interval (ops %d..%d) but StateReader/NodeReader failed (%v/%v)", r.st.ID, lo, hi, r.srErr, r.nrErr), w())
			}
			d.r.Count("conc_reader_unavailable", 1)
			continue
		}
		if deadAll && r.retainedIt == 0 {
			d.viol("availability:dropped-root-readable:concurrent", fmt.Sprintf("state %d was not live during the whole interval (ops %d..%d) but readers were handed out", r.st.ID, lo, hi), w())
			continue
		}
		d.r.Count("conc_reads", r.reads)
		// strict: the root stayed a diff layer all the time, or it stayed live and nothing
		// was flattened in the interval
		strict := diffAll || (liveAll && noFlatten)
		if r.flatErrs > 0 {
			if strict && anyStale && strings.Contains(r.firstErr, "layer stale") {
				d.viol(fpSibling, fmt.Sprintf("flat read at live state %d failed (concurrent session, stale fallback through a stale parent link): %s", r.st.ID, r.firstErr), w())
				d.r.Count("sibling_of_flattened_flat_read_errors", r.flatErrs)
			} else if strict {
				d.viol("read-error:flat:concurrent", fmt.Sprintf("flat read at state %d failed although the root stayed live (diffAll=%v noFlatten=%v, ops %d..%d): %s", r.st.ID, diffAll, noFlatten, lo, hi, r.firstErr), w())
			} else {
				d.r.Count("conc_stale_errors_tolerated", r.flatErrs)
			}
		}
		if r.nodeErrs > 0 {
			switch {
			case strict && anyStale && strings.Contains(r.firstErr, "layer stale"):
				d.viol(fpSibling, fmt.Sprintf("node read at live state %d failed (concurrent session): %s", r.st.ID, r.firstErr), w())
				d.r.Count("sibling_of_flattened_node_read_errors", r.nodeErrs)
			case strict:
				d.viol("read-error:node:concurrent", fmt.Sprintf("node read at state %d failed although the root stayed live (diffAll=%v noFlatten=%v, ops %d..%d): %s", r.st.ID, diffAll, noFlatten, lo, hi, r.firstErr), w())
			default:
				d.r.Count("conc_stale_errors_tolerated", r.nodeErrs)
			}
		}
		if strict {
			d.r.Count("conc_batches_strict", 1)
			if r.e1 != r.e2 || r.e1%2 == 1 {
				d.r.Count("conc_batches_strict_overlapping_op", 1)
				if !noFlatten {
					d.r.Count("conc_batches_strict_overlapping_flatten", 1)
				}
			}
		}
	}
	return
}

func concurrentSession(r *vrt.Run, idx, max, readers int) {
	rng := r.Rand("conc", idx)
	cfg := drawConfig(rng, max, true)
	cfg.Buffer = []int{256, 512, 1024, 2048, 4096}[rng.Intn(5)]
	cfg.Async = rng.Intn(4) != 0
	cfg.Accounts = 3 + rng.Intn(10)
	cfg.Slots = 2 + rng.Intn(5)
	cfg.ForkPct = []int{0, 10, 25}[rng.Intn(3)]
	cfg.CommitPct = []int{0, 2}[rng.Intn(2)]
	cfg.Layers = 60 + rng.Intn(120)
	if r.Race() {
		cfg.Layers = 30 + rng.Intn(40)
	}
	r.Case("concurrent session %d cfg=%+v", idx, cfg)
	d, err := openDUT(r, cfg, fmt.Sprintf("conc-%d", idx), rng)
	if err != nil {
		r.Inconclusive("cannot open database: %v", err)
		return
	}
	defer d.close()
	s := &session{d: d, snaps: make([]*snap, 0, cfg.Layers+8)}
	head := d.h.Genesis()
	var recent []*statehist.State
	push := func(st *statehist.State) {
		recent = append(recent, st)
		if w := 3*max + 6; len(recent) > w {
			recent = recent[len(recent)-w:]
		}
	}
	// warm-up chain (sequential)
	for i := 0; i < max+1; i++ {
		e := d.h.Derive(head, rng)
		if !d.applyUpdate(e, uint64(i)) {
			return
		}
		head = e.Child
		push(head)
	}
	s.snaps = append(s.snaps, takeSnap(d.m))
	s.publish(recent)

	logs := make([][]rec, readers)
	var wg sync.WaitGroup
	for i := 0; i < readers; i++ {
		wg.Add(1)
		go func(i int) {
			defer wg.Done()
			s.reader(i, r.Rand(fmt.Sprintf("conc-reader-%d", idx), i), &logs[i])
		}(i)
	}
	ops := 0
	for step := 0; step < cfg.Layers && !d.bad.Load(); step++ {
		// prepare the operation outside the epoch window
		var e *statehist.Edge
		var commit *statehist.State
		switch p := rng.Intn(100); {
		case p < cfg.CommitPct && len(d.m.diffs) > 1:
			commit = d.anyDiff(rng)
		case p < cfg.CommitPct+cfg.ForkPct && len(d.m.diffs) > 0:
			live := d.liveStates()
			e = d.h.Derive(live[rng.Intn(len(live))], rng)
		default:
			e = d.h.Derive(head, rng)
		}
		s.epoch.Add(1) // odd: operation in progress
		var ok bool
		if commit != nil {
			ok = d.applyCommit(commit)
		} else {
			ok = d.applyUpdate(e, uint64(max+1+step))
		}
		if ok || d.m.tainted {
			s.snaps = append(s.snaps, takeSnap(d.m))
		}
		if !ok {
			s.epoch.Add(1)
			break
		}
		if commit != nil {
			head = commit
		} else if d.m.live(e.Child.Root) && (e.Parent == head || rng.Intn(2) == 0) {
			head = e.Child
			push(head)
		} else if d.m.live(e.Child.Root) {
			push(e.Child)
		}
		if !d.m.live(head.Root) {
			head = d.m.base
		}
		s.publish(recent)
		s.epoch.Add(1) // even: stable
		ops++
		if step%4 == 3 {
			runtime.Gosched()
		}
	}
	s.done.Store(true)
	wg.Wait()
	// the epoch counter must index the snapshots: one snapshot per completed operation
	for len(s.snaps) < int(s.epoch.Load()/2)+1 {
		s.snaps = append(s.snaps, s.snaps[len(s.snaps)-1])
	}
	if d.bad.Load() {
		return
	}
	var all []rec
	for _, l := range logs {
		all = append(all, l...)
	}
	ovOp, ovFl := s.classify(all)
	r.Count("conc_sessions", 1)
	r.Count("conc_writer_ops", ops)
	r.Count("conc_batches", len(all))
	r.Count("conc_batches_overlapping_op", ovOp)
	r.Count("conc_batches_overlapping_flatten", ovFl)
	r.Count("cap_events", d.m.caps)
	r.Eval(fmt.Sprintf("conc/max%d/async%v/buf%d/forks%d/commit%v/ovop%d/ovfl%d/procs%d", max, cfg.Async, cfg.Buffer, cls(d.m.forks), cfg.CommitPct > 0, cls(ovOp), cls(ovFl), runtime.GOMAXPROCS(0)))
}

func concurrentPhase(r *vrt.Run) {
	perturb.Store(true)
	defer perturb.Store(false)
	old := runtime.GOMAXPROCS(0)
	defer runtime.GOMAXPROCS(old)
	type grp struct{ max, procs int }
	groups := []grp{{2, 16}, {3, 2}, {4, 16}, {6, 4}}
	per := r.N(5, 100)
	readers := 8
	if r.Race() {
		per = r.N(3, 25)
		readers = 4
	}
	idx := 0
	for _, g := range groups {
		pathdb.VerifSetMaxDiffLayers(g.max)
		runtime.GOMAXPROCS(min(g.procs, max(old, 2))) // never above the limit given by the environment
		base := idx
		vrt.Par(per, 4, func(i int) { concurrentSession(r, base+i, g.max, readers) })
		idx += per
		if otherViolations.Load() > 0 {
			break
		}
	}
	r.Extra("interleaving_signature", fmt.Sprintf("%x", ctl.Signature()))
	r.Require("conc_sessions", 8)
	r.Require("conc_batches_strict_overlapping_flatten", 20)
	r.Require("conc_batches_overlapping_flatten", 100)
	for _, p := range []string{"reader.account.afterLookup", "reader.storage.afterLookup", "cap.afterPersist", "disk.commit.afterStale", "buffer.flush.beforeWrite"} {
		hitMu.Lock()
		n := hits[p]
		hitMu.Unlock()
		if n == 0 {
			r.Inconclusive("yield point %s never reached", p)
		}
	}
}
