// C24: freezer tables survive crashes without corruption.
//
// A workload child runs a generated append/truncate/sync/reopen history on a real freezer
// (small data files, compressed and raw tables, tail groups) under strace. The parent
// interprets the syscall journal (lib/sysjournal), reconstructs for crash positions the file
// states the kill and power-loss models allow, and a checker child re-opens each state with
// the real recovery code and compares what is readable with the model of appended items and
// the acknowledgement log.
package main

import (
	"bufio"
	"bytes"
	"encoding/json"
	"fmt"
	"math/rand"
	"os"
	"os/exec"
	"path/filepath"
	"sort"
	"strings"
	"sync"
	"time"

	"github.com/ethereum/go-ethereum/core/rawdb"
	"github.com/ethereum/go-ethereum/ethdb"

	"verif/lib/sysjournal"
	"verif/lib/vrt"
)

func main() {
	vrt.RegisterChild("c24-workload", workloadChild)
	vrt.RegisterChild("c24-reopen", reopenChild)
	vrt.Main("C24", run)
}

// ---------------------------------------------------------------------------------------
// History model

type TableCfg struct {
	Name      string `json:"name"`
	NoSnappy  bool   `json:"no_snappy"`
	TailGroup string `json:"tail_group"`
}

type Op struct {
	Kind  string              `json:"kind"` // append | trunchead | trunctail | sync | reopen
	N     uint64              `json:"n,omitempty"`
	Group string              `json:"group,omitempty"`
	Items map[string][][]byte `json:"items,omitempty"` // table -> items (append)
}

type History struct {
	MaxTableSize uint32     `json:"max_table_size"`
	Tables       []TableCfg `json:"tables"`
	Ops          []Op       `json:"ops"`
}

func (h *History) cfg() map[string]rawdb.VerifTableConfig {
	m := map[string]rawdb.VerifTableConfig{}
	for _, t := range h.Tables {
		m[t.Name] = rawdb.VerifTableConfig{NoSnappy: t.NoSnappy, TailGroup: t.TailGroup}
	}
	return m
}

// Items never exceed the data-file size limit (also after snappy's worst-case expansion,
// 32+n+n/6): an item larger than a whole data file cannot occur with the production limit of
// 2 GB, and the table's index validation (checkIndexItems: "the first index item in a new data
// file must not have a zero data offset") relies on that.
func genItem(rng *rand.Rand, nonEmpty bool) []byte {
	var n int
	switch rng.Intn(8) {
	case 0:
		n = 0
	case 1:
		n = 1
	case 2:
		n = 60 + rng.Intn(21)
	default:
		n = rng.Intn(60)
	}
	if nonEmpty && n == 0 {
		n = 1 + rng.Intn(10)
	}
	b := make([]byte, n)
	if rng.Intn(3) == 0 {
		// compressible
		c := byte(rng.Intn(256))
		for i := range b {
			b[i] = c
		}
	} else {
		rng.Read(b)
	}
	// never all-zero non-empty payload in raw tables at item 0 (keeps the documented
	// undetectable "all index entries zero" case out of scope)
	if nonEmpty {
		b[0] |= 1
	}
	return b
}

func genHistory(rng *rand.Rand, quick bool) *History {
	h := &History{MaxTableSize: uint32(128 << rng.Intn(3))}
	nt := 2 + rng.Intn(4)
	groups := []string{"", "ga", "gb"}
	for i := 0; i < nt; i++ {
		h.Tables = append(h.Tables, TableCfg{Name: fmt.Sprintf("t%d", i), NoSnappy: rng.Intn(2) == 0, TailGroup: groups[rng.Intn(len(groups))]})
	}
	nops := 10 + rng.Intn(50)
	if !quick {
		nops = 10 + rng.Intn(110)
	}
	head := uint64(0)
	tails := map[string]uint64{}
	maxTail := func() uint64 {
		m := uint64(0)
		for _, t := range tails {
			if t > m {
				m = t
			}
		}
		return m
	}
	for len(h.Ops) < nops {
		switch k := rng.Intn(100); {
		case k < 50 || head == 0:
			m := 1 + rng.Intn(6)
			op := Op{Kind: "append", N: uint64(m), Items: map[string][][]byte{}}
			for _, t := range h.Tables {
				for j := 0; j < m; j++ {
					op.Items[t.Name] = append(op.Items[t.Name], genItem(rng, head+uint64(j) == 0))
				}
			}
			head += uint64(m)
			h.Ops = append(h.Ops, op)
		case k < 62:
			lo := maxTail()
			if head <= lo {
				continue
			}
			n := lo + uint64(rng.Int63n(int64(head-lo)+1))
			if rng.Intn(3) == 0 && head > 0 {
				n = head - 1
				if n < lo {
					n = lo
				}
			}
			h.Ops = append(h.Ops, Op{Kind: "trunchead", N: n})
			if n < head {
				head = n
			}
		case k < 74:
			var gs []string
			for _, t := range h.Tables {
				if t.TailGroup != "" {
					gs = append(gs, t.TailGroup)
				}
			}
			if len(gs) == 0 {
				continue
			}
			g := gs[rng.Intn(len(gs))]
			if tails[g] >= head {
				continue
			}
			n := tails[g] + 1 + uint64(rng.Int63n(int64(head-tails[g])))
			h.Ops = append(h.Ops, Op{Kind: "trunctail", Group: g, N: n})
			tails[g] = n
		case k < 90:
			h.Ops = append(h.Ops, Op{Kind: "sync"})
		default:
			h.Ops = append(h.Ops, Op{Kind: "reopen"})
		}
	}
	return h
}

// ---------------------------------------------------------------------------------------
// Workload child: executes the history on the real freezer, writing marks.

func workloadChild(r *vrt.Run) {
	dir, marks, hpath := os.Getenv("C24_DIR"), os.Getenv("C24_MARKS"), os.Getenv("C24_HISTORY")
	var h History
	b, err := os.ReadFile(hpath)
	if err != nil || json.Unmarshal(b, &h) != nil {
		fmt.Println("workload: cannot read history")
		os.Exit(4)
	}
	mf, err := os.OpenFile(marks, os.O_CREATE|os.O_WRONLY|os.O_APPEND, 0o644)
	if err != nil {
		fmt.Println("workload: marks:", err)
		os.Exit(4)
	}
	mark := func(format string, a ...any) { mf.WriteString(fmt.Sprintf(format, a...) + "\n") }
	f, err := rawdb.VerifNewFreezer(dir, false, h.MaxTableSize, h.cfg())
	if err != nil {
		fmt.Println("workload: open:", err)
		os.Exit(5)
	}
	mark("START")
	for i, op := range h.Ops {
		mark("B %d", i)
		var err error
		switch op.Kind {
		case "append":
			head, _ := f.Ancients()
			_, err = f.ModifyAncients(func(w ethdb.AncientWriteOp) error {
				for j := uint64(0); j < op.N; j++ {
					for _, t := range h.Tables {
						if err := w.AppendRaw(t.Name, head+j, op.Items[t.Name][j]); err != nil {
							return err
						}
					}
				}
				return nil
			})
		case "trunchead":
			_, err = f.TruncateHead(op.N)
		case "trunctail":
			_, err = f.TruncateTail(op.Group, op.N)
		case "sync":
			err = f.SyncAncient()
		case "reopen":
			if err = f.Close(); err == nil {
				f, err = rawdb.VerifNewFreezer(dir, false, h.MaxTableSize, h.cfg())
			}
		}
		if err != nil {
			mark("E %d err %v", i, err)
			fmt.Printf("workload: op %d (%s) failed: %v\n", i, op.Kind, err)
			os.Exit(6)
		}
		mark("E %d ok", i)
	}
	mark("END")
	// leave the freezer open: the journal ends with the process (a final kill)
}

// ---------------------------------------------------------------------------------------
// Expectations for one crash position

type Expect struct {
	MaxTableSize uint32              `json:"max_table_size"`
	Tables       []TableCfg          `json:"tables"`
	AckHead      uint64              `json:"ack_head"`
	MaxHead      uint64              `json:"max_head"`
	MaxTail      map[string]uint64   `json:"max_tail"` // per group: highest tail requested (incl. in flight)
	Items        map[string][][]byte `json:"items"`    // table -> item per index (current generation, incl. in-flight appends)
	Completed    int                 `json:"completed"`
	InFlight     int                 `json:"in_flight"` // op index or -1
	Model        string              `json:"model"`
	Desc         string              `json:"desc"`
}

// modelAt computes the expectation after `completed` ops finished and op inflight (or -1)
// begun.
func modelAt(h *History, completed, inflight int) *Expect {
	e := &Expect{MaxTableSize: h.MaxTableSize, Tables: h.Tables, MaxTail: map[string]uint64{}, Items: map[string][][]byte{}, Completed: completed, InFlight: inflight}
	head, ack := uint64(0), uint64(0)
	apply := func(op Op, done bool) {
		switch op.Kind {
		case "append":
			for _, t := range h.Tables {
				e.Items[t.Name] = append(e.Items[t.Name][:head], op.Items[t.Name]...)
			}
			if done {
				head += op.N
			} else {
				e.MaxHead = head + op.N
			}
		case "trunchead":
			if op.N < ack {
				ack = op.N
			}
			if done && op.N < head {
				head = op.N
			}
		case "trunctail":
			if op.N > e.MaxTail[op.Group] {
				e.MaxTail[op.Group] = op.N
			}
		case "sync", "reopen":
			// reopen = Close (which syncs every table) + open
			if done {
				ack = head
			}
		}
	}
	for i := 0; i < completed; i++ {
		apply(h.Ops[i], true)
	}
	e.MaxHead = head
	if inflight >= 0 {
		apply(h.Ops[inflight], false)
	}
	e.AckHead = ack
	if e.MaxHead < head {
		e.MaxHead = head
	}
	return e
}

// ---------------------------------------------------------------------------------------
// Reopen child: opens one or more crash states and verifies them.

type Verdict struct {
	OK        bool   `json:"ok"`
	FP        string `json:"fp,omitempty"`
	Msg       string `json:"msg,omitempty"`
	Head      uint64 `json:"head"`
	Repairs   string `json:"repairs,omitempty"`
	Continued bool   `json:"continued"`
}

func reopenChild(r *vrt.Run) {
	list := os.Getenv("C24_LIST")
	f, err := os.Open(list)
	if err != nil {
		os.Exit(4)
	}
	sc := bufio.NewScanner(f)
	for sc.Scan() {
		dir := sc.Text()
		if dir == "" {
			continue
		}
		fmt.Printf("BEGIN %s\n", dir)
		v := checkState(dir)
		b, _ := json.Marshal(v)
		fmt.Printf("RESULT %s %s\n", dir, b)
	}
}

func checkState(dir string) (v Verdict) {
	var e Expect
	b, err := os.ReadFile(filepath.Join(dir, "expect.json"))
	if err != nil || json.Unmarshal(b, &e) != nil {
		return Verdict{FP: "harness", Msg: "cannot read expect.json"}
	}
	h := &History{MaxTableSize: e.MaxTableSize, Tables: e.Tables}
	fdir := filepath.Join(dir, "fz")
	defer func() {
		if p := recover(); p != nil {
			v = Verdict{FP: "reopen-panic", Msg: fmt.Sprintf("panic during reopen/read: %v", p)}
		}
	}()
	fz, err := rawdb.VerifNewFreezer(fdir, false, e.MaxTableSize, h.cfg())
	if err != nil {
		return Verdict{FP: "reopen-error", Msg: "reopen failed: " + err.Error()}
	}
	defer func() {
		if fz != nil {
			fz.Close()
		}
	}()
	head, _ := fz.Ancients()
	v.Head = head
	if head < e.AckHead {
		return Verdict{FP: "acked-items-lost", Msg: fmt.Sprintf("head after reopen %d < %d items covered by a completed sync", head, e.AckHead), Head: head}
	}
	if head > e.MaxHead {
		return Verdict{FP: "head-beyond-appended", Msg: fmt.Sprintf("head after reopen %d > %d items ever appended", head, e.MaxHead), Head: head}
	}
	tails := map[string]uint64{}
	for _, t := range e.Tables {
		if t.TailGroup == "" {
			continue
		}
		tail, err := fz.Tail(t.TailGroup)
		if err != nil {
			return Verdict{FP: "tail-error", Msg: err.Error(), Head: head}
		}
		tails[t.TailGroup] = tail
		// The property bounds the tail only through acknowledged items: an item covered by a
		// completed sync and not truncated (index in [highest requested tail, ackHead)) must
		// still be present.
		if mt := e.MaxTail[t.TailGroup]; tail > mt && e.AckHead > mt {
			return Verdict{FP: "acked-items-lost-at-tail", Msg: fmt.Sprintf("group %s tail %d > highest requested tail %d although items up to %d were covered by a completed sync", t.TailGroup, tail, mt, e.AckHead), Head: head}
		}
		if tail > head {
			return Verdict{FP: "tail-above-head", Msg: fmt.Sprintf("group %s tail %d > head %d", t.TailGroup, tail, head), Head: head}
		}
	}
	for _, t := range e.Tables {
		tail := tails[t.TailGroup]
		for i := tail; i < head; i++ {
			got, err := fz.Ancient(t.Name, i)
			if err != nil {
				return Verdict{FP: "item-unreadable", Msg: fmt.Sprintf("table %s item %d in [tail %d, head %d) unreadable: %v", t.Name, i, tail, head, err), Head: head}
			}
			if int(i) >= len(e.Items[t.Name]) {
				return Verdict{FP: "item-unknown", Msg: fmt.Sprintf("table %s item %d readable but never appended", t.Name, i), Head: head}
			}
			if !bytes.Equal(got, e.Items[t.Name][i]) {
				return Verdict{FP: "item-corrupt", Msg: fmt.Sprintf("table %s item %d = %x, appended %x", t.Name, i, trunc(got), trunc(e.Items[t.Name][i])), Head: head}
			}
		}
		if _, err := fz.Ancient(t.Name, head); err == nil {
			return Verdict{FP: "tables-misaligned", Msg: fmt.Sprintf("table %s serves item %d at/after the common head", t.Name, head), Head: head}
		}
		if tail > 0 {
			if _, err := fz.Ancient(t.Name, tail-1); err == nil {
				return Verdict{FP: "tables-misaligned", Msg: fmt.Sprintf("table %s serves item %d below the group tail %d", t.Name, tail-1, tail), Head: head}
			}
		}
		// batched range read must agree
		if head > tail {
			items, err := fz.AncientRange(t.Name, tail, head-tail, 0)
			if err != nil || uint64(len(items)) != head-tail {
				return Verdict{FP: "range-read", Msg: fmt.Sprintf("table %s AncientRange(%d,%d) = %d items, err %v", t.Name, tail, head-tail, len(items), err), Head: head}
			}
			for j, it := range items {
				if !bytes.Equal(it, e.Items[t.Name][tail+uint64(j)]) {
					return Verdict{FP: "item-corrupt", Msg: fmt.Sprintf("table %s range item %d differs", t.Name, tail+uint64(j)), Head: head}
				}
			}
		}
	}
	// continuation: the recovered freezer must accept further appends and survive a clean restart
	extra := map[string][][]byte{}
	_, err = fz.ModifyAncients(func(w ethdb.AncientWriteOp) error {
		for j := uint64(0); j < 2; j++ {
			for _, t := range e.Tables {
				it := []byte(fmt.Sprintf("cont-%s-%d", t.Name, head+j))
				extra[t.Name] = append(extra[t.Name], it)
				if err := w.AppendRaw(t.Name, head+j, it); err != nil {
					return err
				}
			}
		}
		return nil
	})
	if err != nil {
		return Verdict{FP: "continue-append", Msg: "append after recovery failed: " + err.Error(), Head: head}
	}
	if err := fz.SyncAncient(); err != nil {
		return Verdict{FP: "continue-sync", Msg: err.Error(), Head: head}
	}
	if err := fz.Close(); err != nil {
		fz = nil
		return Verdict{FP: "continue-close", Msg: err.Error(), Head: head}
	}
	fz = nil
	ro, err := rawdb.VerifNewFreezer(fdir, true, e.MaxTableSize, h.cfg())
	if err != nil {
		return Verdict{FP: "continue-reopen", Msg: "read-only reopen after recovery+append failed: " + err.Error(), Head: head}
	}
	defer ro.Close()
	h2, _ := ro.Ancients()
	if h2 != head+2 {
		return Verdict{FP: "continue-head", Msg: fmt.Sprintf("head after recovery+2 appends+restart = %d, want %d", h2, head+2), Head: head}
	}
	for _, t := range e.Tables {
		for j := uint64(0); j < 2; j++ {
			got, err := ro.Ancient(t.Name, head+j)
			if err != nil || !bytes.Equal(got, extra[t.Name][j]) {
				return Verdict{FP: "continue-item", Msg: fmt.Sprintf("table %s item %d after restart: %x err %v", t.Name, head+j, trunc(got), err), Head: head}
			}
		}
		tail := tails[t.TailGroup]
		for i := tail; i < head; i++ {
			got, err := ro.Ancient(t.Name, i)
			if err != nil || !bytes.Equal(got, e.Items[t.Name][i]) {
				return Verdict{FP: "continue-item", Msg: fmt.Sprintf("table %s item %d changed after restart", t.Name, i), Head: head}
			}
		}
	}
	v.OK = true
	v.Continued = true
	return v
}

func trunc(b []byte) []byte {
	if len(b) > 24 {
		return b[:24]
	}
	return b
}

// ---------------------------------------------------------------------------------------
// Parent

type posInfo struct {
	ev        int
	completed int
	inflight  int
}

func run(r *vrt.Run) {
	r.Rule("a case = (generated freezer history, crash position in its syscall journal, crash-state variant); histories: 2-5 tables (snappy/raw, tail groups), data files of 64-512 bytes, appends of 1-6 items, head/tail truncations, syncs, close+reopen; positions: mutating syscalls between the first and last workload mark (quick: sampled, thorough: a larger sample, all if few); variants: kill + systematic and random power-loss cuts. non-trivial signature = (crash model, kind of the in-flight operation, syscall just completed, repair outcome class: head==ack / between / ==max)")
	if _, err := exec.LookPath("strace"); err != nil {
		r.Inconclusive("strace not available: %v", err)
		return
	}
	nh := r.N(6, 30)
	posPer := r.N(40, 240)
	nRandom := r.N(1, 2)
	var mu sync.Mutex
	seenStates := 0
	vrt.Par(nh, 0, func(hi int) {
		rng := r.Rand("hist", hi)
		h := genHistory(rng, r.Quick())
		base := filepath.Join(r.Scratch, fmt.Sprintf("h%d", hi))
		os.MkdirAll(base, 0o755)
		defer os.RemoveAll(base)
		root := filepath.Join(base, "root")
		fzdir := filepath.Join(root, "fz")
		os.MkdirAll(root, 0o755)
		marks := filepath.Join(base, "MARKS")
		hpath := filepath.Join(base, "history.json")
		hb, _ := json.Marshal(h)
		os.WriteFile(hpath, hb, 0o644)
		journal := filepath.Join(base, "journal.txt")
		r.Case("history %d: record workload (%d ops, %d tables, max file %d)", hi, len(h.Ops), len(h.Tables), h.MaxTableSize)
		cr := r.Child("c24-workload", []string{"C24_DIR=" + fzdir, "C24_MARKS=" + marks, "C24_HISTORY=" + hpath}, 5*time.Minute, sysjournal.StracePrefix(journal, 1<<20)...)
		if cr.TimedOut {
			r.Inconclusive("history %d: workload watchdog", hi)
			return
		}
		if cr.Exit != 0 {
			// the workload itself failed on the real freezer: an operation of the history
			// returned an error (all generated operations are valid) or the process died
			r.Violation("workload-op-failed", fmt.Sprintf("history %d: workload exit %d: %s", hi, cr.Exit, tail(cr.Output, 600)), map[string]any{"history": h})
			return
		}
		evs, err := sysjournal.Parse(journal)
		if err != nil {
			r.Inconclusive("history %d: journal parse: %v", hi, err)
			return
		}
		// pass 1: full replay for self-check and mark positions
		fs := sysjournal.NewFS(root, marks)
		var mutating []int
		lastName := map[int]string{}
		for i, ev := range evs {
			if info := fs.Step(i, ev); info.Mutating {
				mutating = append(mutating, i)
				lastName[i] = ev.Name
			}
		}
		if err := fs.SelfCheck(); err != nil {
			r.Inconclusive("history %d: journal self-check failed: %v", hi, err)
			r.Count("selfcheck_failed", 1)
			if os.Getenv("C24_KEEP") != "" {
				exec.Command("cp", "-r", base, os.Getenv("C24_KEEP")).Run()
			}
			return
		}
		r.Count("journals_selfchecked", 1)
		r.Count("journal_events", len(evs))
		if os.Getenv("C24_ONLY_SELFCHECK") != "" {
			return
		}
		// op boundaries by event index
		begin := make([]int, len(h.Ops))
		end := make([]int, len(h.Ops))
		for i := range begin {
			begin[i], end[i] = 1<<60, 1<<60
		}
		first, last := -1, -1
		for _, m := range fs.Marks {
			var k int
			switch {
			case m.Text == "START":
				first = m.Pos
			case m.Text == "END":
				last = m.Pos
			case strings.HasPrefix(m.Text, "B "):
				fmt.Sscanf(m.Text, "B %d", &k)
				begin[k] = m.Pos
			case strings.HasPrefix(m.Text, "E "):
				fmt.Sscanf(m.Text, "E %d", &k)
				end[k] = m.Pos
			}
		}
		if first < 0 || last < 0 {
			r.Inconclusive("history %d: START/END marks missing", hi)
			return
		}
		var cands []int
		for _, p := range mutating {
			if p > first && p < last {
				cands = append(cands, p)
			}
		}
		// choose positions
		chosen := map[int]bool{}
		if len(cands) <= posPer {
			for _, p := range cands {
				chosen[p] = true
			}
		} else {
			// all truncations/renames/unlinks/syncs first (up to half), then random
			var special []int
			for _, p := range cands {
				switch lastName[p] {
				case "ftruncate", "renameat", "renameat2", "rename", "unlinkat", "unlink":
					special = append(special, p)
				}
			}
			rng.Shuffle(len(special), func(i, j int) { special[i], special[j] = special[j], special[i] })
			for _, p := range special {
				if len(chosen) >= posPer/2 {
					break
				}
				chosen[p] = true
			}
			for len(chosen) < posPer {
				chosen[cands[rng.Intn(len(cands))]] = true
			}
		}
		// pass 2: replay and emit crash states at the chosen positions
		fs2 := sysjournal.NewFS(root, marks)
		type job struct {
			dir string
			cs  sysjournal.CrashState
			exp *Expect
			sig string
		}
		var jobs []job
		seen := map[[32]byte]bool{}
		sdir := filepath.Join(base, "states")
		for i, ev := range evs {
			fs2.Step(i, ev)
			if !chosen[i] {
				continue
			}
			completed, inflight := 0, -1
			for k := range h.Ops {
				if end[k] <= i {
					completed = k + 1
				} else if begin[k] <= i {
					inflight = k
				}
			}
			states := append([]sysjournal.CrashState{fs2.KillState()}, fs2.PowerStates(rng, nRandom)...)
			for _, cs := range states {
				// strip the root-relative prefix "fz/"
				hsh := cs.Hash()
				e := modelAt(h, completed, inflight)
				key := hsh
				key[0] ^= byte(completed)
				key[1] ^= byte(inflight + 1)
				if seen[key] {
					continue
				}
				seen[key] = true
				e.Model, e.Desc = cs.Model, fmt.Sprintf("after journal line %d (%s): %s", ev.Line, ev.Name, cs.Desc)
				kind := "none"
				if inflight >= 0 {
					kind = h.Ops[inflight].Kind
				}
				jobs = append(jobs, job{dir: filepath.Join(sdir, fmt.Sprintf("s%d", len(jobs))), cs: cs, exp: e, sig: fmt.Sprintf("%s/inflight=%s/after=%s", cs.Model, kind, ev.Name)})
			}
		}
		r.Count("crash_positions", len(chosen))
		// materialise + check in batches through reopen children
		const batch = 64
		for s := 0; s < len(jobs); s += batch {
			eidx := s + batch
			if eidx > len(jobs) {
				eidx = len(jobs)
			}
			pending := jobs[s:eidx]
			for len(pending) > 0 {
				var list bytes.Buffer
				for _, j := range pending {
					if err := j.cs.Materialize(j.dir); err != nil {
						r.Inconclusive("materialize: %v", err)
						return
					}
					eb, _ := json.Marshal(j.exp)
					os.WriteFile(filepath.Join(j.dir, "expect.json"), eb, 0o644)
					list.WriteString(j.dir + "\n")
				}
				lpath := filepath.Join(base, "list.txt")
				os.WriteFile(lpath, list.Bytes(), 0o644)
				r.Case("history %d: reopen batch of %d crash states starting with %s", hi, len(pending), pending[0].exp.Desc)
				cr := r.Child("c24-reopen", []string{"C24_LIST=" + lpath}, 10*time.Minute)
				results := map[string]Verdict{}
				begun := ""
				for _, line := range strings.Split(string(cr.Output), "\n") {
					if strings.HasPrefix(line, "BEGIN ") {
						begun = strings.TrimPrefix(line, "BEGIN ")
					} else if strings.HasPrefix(line, "RESULT ") {
						rest := strings.TrimPrefix(line, "RESULT ")
						sp := strings.IndexByte(rest, ' ')
						var v Verdict
						if sp > 0 && json.Unmarshal([]byte(rest[sp+1:]), &v) == nil {
							results[rest[:sp]] = v
							if rest[:sp] == begun {
								begun = ""
							}
						}
					}
				}
				var next []job
				died := false
				for _, j := range pending {
					v, ok := results[j.dir]
					switch {
					case ok:
						judge(r, h, j.exp, j.cs, v, j.sig, hi)
						os.RemoveAll(j.dir)
					case j.dir == begun && !died:
						died = true
						if cr.TimedOut {
							r.Inconclusive("history %d: reopen child watchdog on %s", hi, j.exp.Desc)
						} else {
							r.Violation("reopen-died", fmt.Sprintf("history %d: process died (exit %d %s) while reopening crash state %s: %s", hi, cr.Exit, cr.Signal, j.exp.Desc, tail(cr.Output, 1500)), witness(h, j.exp, j.cs))
							r.Eval(j.sig + "/died")
						}
						os.RemoveAll(j.dir)
					default:
						next = append(next, j)
					}
				}
				if len(next) == len(pending) {
					r.Inconclusive("history %d: reopen child made no progress (exit %d): %s", hi, cr.Exit, tail(cr.Output, 400))
					return
				}
				pending = next
			}
		}
		mu.Lock()
		seenStates += len(jobs)
		mu.Unlock()
		if r.WantSample() && len(jobs) > 0 {
			j := jobs[len(jobs)/2]
			ops := make([]string, 0, len(h.Ops))
			for _, op := range h.Ops {
				ops = append(ops, fmt.Sprintf("%s(%d%s)", op.Kind, op.N, op.Group))
			}
			r.Sample(map[string]any{"history": hi, "tables": h.Tables, "max_table_size": h.MaxTableSize, "ops": ops, "journal_events": len(evs), "crash_states": len(jobs), "example_state": j.exp.Desc, "example_model": j.exp.Model, "example_ack_head": j.exp.AckHead, "example_max_head": j.exp.MaxHead})
		}
	})
	r.Extra("crash_states_reopened", seenStates)
	r.Require("journals_selfchecked", int64(nh*3/4))
	r.Require("states_power", 50)
	r.Require("states_kill", 50)
	r.Require("repair_lost_unsynced", 5)
	r.Assume("crash model of sysjournal: per-file cut between synced and current size with zero-filled tails; renames/unlinks/creates atomic and durable when the syscall completes; torn in-place writes inside the <=20-byte meta record and directory-entry loss are not modelled")
	r.Assume("strace journal interpretation, validated per history by byte-for-byte comparison of the final reconstruction with the real files")
}

func witness(h *History, e *Expect, cs sysjournal.CrashState) map[string]any {
	files := map[string]string{}
	for p, b := range cs.Files {
		files[p] = vrt.Hex(b)
	}
	return map[string]any{"history": h, "completed_ops": e.Completed, "in_flight_op": e.InFlight, "crash_model": e.Model, "crash_state": e.Desc, "ack_head": e.AckHead, "max_head": e.MaxHead, "files": files}
}

func judge(r *vrt.Run, h *History, e *Expect, cs sysjournal.CrashState, v Verdict, sig string, hi int) {
	r.Count("states_"+e.Model, 1)
	if !v.OK {
		if v.FP == "harness" {
			r.Inconclusive("checker: %s", v.Msg)
			return
		}
		kind := "none"
		if e.InFlight >= 0 {
			kind = h.Ops[e.InFlight].Kind
		}
		r.Violation(v.FP+":"+e.Model+":inflight-"+kind, fmt.Sprintf("history %d, %s, %d ops completed, in-flight %d: %s", hi, e.Desc, e.Completed, e.InFlight, v.Msg), witness(h, e, cs))
		r.Eval(sig + "/violated")
		return
	}
	class := "between"
	switch {
	case v.Head == e.MaxHead && v.Head == e.AckHead:
		class = "exact"
	case v.Head == e.AckHead:
		class = "ack"
		r.Count("repair_lost_unsynced", 1)
	case v.Head == e.MaxHead:
		class = "max"
	default:
		r.Count("repair_lost_unsynced", 1)
	}
	r.Count("reopen_head_"+class, 1)
	r.Eval(sig + "/" + class)
}

func tail(b []byte, n int) string {
	if len(b) > n {
		b = b[len(b)-n:]
	}
	return string(b)
}

var _ = sort.Strings
