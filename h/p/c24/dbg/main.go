// debug helper: runs a C24 history in-process and prints the freezer state after each op.
package main

import (
	"encoding/json"
	"fmt"
	"os"

	"github.com/ethereum/go-ethereum/core/rawdb"
	"github.com/ethereum/go-ethereum/ethdb"
)

type TableCfg struct {
	Name      string `json:"name"`
	NoSnappy  bool   `json:"no_snappy"`
	TailGroup string `json:"tail_group"`
}
type Op struct {
	Kind  string              `json:"kind"`
	N     uint64              `json:"n,omitempty"`
	Group string              `json:"group,omitempty"`
	Items map[string][][]byte `json:"items,omitempty"`
}
type History struct {
	MaxTableSize uint32     `json:"max_table_size"`
	Tables       []TableCfg `json:"tables"`
	Ops          []Op       `json:"ops"`
}

func main() {
	var h History
	b, _ := os.ReadFile(os.Args[1])
	json.Unmarshal(b, &h)
	dir := os.Args[2]
	cfg := map[string]rawdb.VerifTableConfig{}
	for _, t := range h.Tables {
		cfg[t.Name] = rawdb.VerifTableConfig{NoSnappy: t.NoSnappy, TailGroup: t.TailGroup}
	}
	f, err := rawdb.VerifNewFreezer(dir, false, h.MaxTableSize, cfg)
	if err != nil {
		panic(err)
	}
	for i, op := range h.Ops {
		var err error
		switch op.Kind {
		case "append":
			head, _ := f.Ancients()
			_, err = f.ModifyAncients(func(w ethdb.AncientWriteOp) error {
				for j := uint64(0); j < op.N; j++ {
					for _, t := range h.Tables {
						if err := w.AppendRaw(t.Name, head+j, op.Items[t.Name][j]); err != nil {
							return err
						}
					}
				}
				return nil
			})
		case "trunchead":
			_, err = f.TruncateHead(op.N)
		case "trunctail":
			_, err = f.TruncateTail(op.Group, op.N)
		case "sync":
			err = f.SyncAncient()
		case "reopen":
			if err = f.Close(); err == nil {
				f, err = rawdb.VerifNewFreezer(dir, false, h.MaxTableSize, cfg)
			}
		}
		fmt.Printf("op %d %s n=%d g=%s err=%v", i, op.Kind, op.N, op.Group, err)
		if err != nil {
			fmt.Println()
			return
		}
		head, _ := f.Ancients()
		fmt.Printf(" head=%d", head)
		for _, t := range h.Tables {
			if t.TailGroup != "" {
				tl, _ := f.Tail(t.TailGroup)
				fmt.Printf(" tail[%s]=%d", t.TailGroup, tl)
			}
		}
		fmt.Println()
	}
}
