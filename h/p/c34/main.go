// C34: stateless re-execution from the witness collected during full execution reproduces
// the block; a witness with a needed element removed makes stateless execution fail rather
// than produce a different result.
package main

import (
	"bytes"
	"context"
	"crypto/ecdsa"
	"fmt"
	"math/big"
	"math/rand"
	"runtime"
	"sort"
	"strings"
	"sync"

	"github.com/ethereum/go-ethereum/common"
	"github.com/ethereum/go-ethereum/consensus"
	"github.com/ethereum/go-ethereum/consensus/beacon"
	"github.com/ethereum/go-ethereum/consensus/ethash"
	"github.com/ethereum/go-ethereum/core"
	"github.com/ethereum/go-ethereum/core/rawdb"
	"github.com/ethereum/go-ethereum/core/state"
	"github.com/ethereum/go-ethereum/core/stateless"
	"github.com/ethereum/go-ethereum/core/types"
	"github.com/ethereum/go-ethereum/core/vm"
	"github.com/ethereum/go-ethereum/crypto"
	"github.com/ethereum/go-ethereum/ethdb"
	"github.com/ethereum/go-ethereum/params"
	"github.com/ethereum/go-ethereum/rlp"
	"github.com/ethereum/go-ethereum/trie"
	"github.com/ethereum/go-ethereum/triedb"

	"verif/lib/opvm"
	"verif/lib/proggen"
	"verif/lib/vrt"
)

func main() { vrt.Main("C34", run) }

const (
	nSenders = 4
	txGas    = 8_000_000
	blockGas = 1_000_000_000
)

var (
	gwei   = big.NewInt(1_000_000_000)
	ether  = new(big.Int).Exp(big.NewInt(10), big.NewInt(18), nil)
	opCode = opvm.Code()
)

func forkConfig(name string) *params.ChainConfig {
	cfg := *params.MergedTestChainConfig
	switch name {
	case "Cancun":
		cfg.PragueTime, cfg.OsakaTime = nil, nil
	case "Prague":
		cfg.OsakaTime = nil
	case "Osaka":
	case "Amsterdam":
		cfg.AmsterdamTime = new(uint64)
	}
	return &cfg
}

func pick[T any](rng *rand.Rand, xs []T) T { return xs[rng.Intn(len(xs))] }

type scenario struct {
	fork      string
	cfg       *params.ChainConfig
	gspec     *core.Genesis
	keys      []*ecdsa.PrivateKey
	addrs     []common.Address
	contracts []common.Address // Op contracts
	progs     []common.Address // proggen contracts
	nslots    map[common.Address]int
	pool      []common.Address
	nonces    map[common.Address]uint64
}

func newScenario(rng *rand.Rand, fork string, minimal bool) *scenario {
	s := &scenario{fork: fork, cfg: forkConfig(fork), nslots: map[common.Address]int{}, nonces: map[common.Address]uint64{}}
	alloc := types.GenesisAlloc{
		params.BeaconRootsAddress: {Nonce: 1, Code: params.BeaconRootsCode, Balance: common.Big0},
	}
	if fork != "Cancun" {
		alloc[params.HistoryStorageAddress] = types.Account{Nonce: 1, Code: params.HistoryStorageCode, Balance: common.Big0}
		alloc[params.WithdrawalQueueAddress] = types.Account{Nonce: 1, Code: params.WithdrawalQueueCode, Balance: common.Big0}
		alloc[params.ConsolidationQueueAddress] = types.Account{Nonce: 1, Code: params.ConsolidationQueueCode, Balance: common.Big0}
	}
	if fork == "Amsterdam" {
		alloc[params.BuilderDepositAddress] = types.Account{Nonce: 1, Code: params.BuilderDepositCode, Balance: common.Big0}
		alloc[params.BuilderExitAddress] = types.Account{Nonce: 1, Code: params.BuilderExitCode, Balance: common.Big0}
	}
	for i := 0; i < nSenders; i++ {
		k, _ := crypto.ToECDSA(crypto.Keccak256([]byte(fmt.Sprintf("verif-c34-key-%d", i))))
		s.keys = append(s.keys, k)
		a := crypto.PubkeyToAddress(k.PublicKey)
		s.addrs = append(s.addrs, a)
		alloc[a] = types.Account{Balance: new(big.Int).Mul(big.NewInt(1_000_000), ether)}
	}
	nContracts := 3 + rng.Intn(5)
	if minimal {
		nContracts = 0
	}
	for i := 0; i < nContracts; i++ {
		a := common.BytesToAddress([]byte{0xc0, 0xde, byte(i + 1)})
		s.contracts = append(s.contracts, a)
		n := pick(rng, []int{0, 1, 2, 3, 8, 40})
		s.nslots[a] = n
		st := map[common.Hash]common.Hash{}
		for k := 0; k < n; k++ {
			st[common.BigToHash(big.NewInt(int64(k)))] = common.BigToHash(big.NewInt(int64(1 + rng.Intn(9))))
		}
		alloc[a] = types.Account{Nonce: 1, Code: opCode, Balance: big.NewInt(int64(rng.Intn(1000))), Storage: st}
		// a funded, code-less account at the address of the contract's first CREATE: creating
		// and self-destructing there in one transaction deletes a pre-existing trie leaf
		if rng.Intn(2) == 0 {
			alloc[crypto.CreateAddress(a, 1)] = types.Account{Balance: big.NewInt(5)}
		}
	}
	// filler accounts give the account trie some depth (siblings, extension nodes)
	for i, n := 0, pick(rng, []int{0, 10, 60, 250}); i < n; i++ {
		var a common.Address
		rng.Read(a[:])
		alloc[a] = types.Account{Balance: big.NewInt(int64(1 + i))}
		if i < 6 {
			s.pool = append(s.pool, a)
		}
	}
	s.pool = append(s.pool, s.contracts...)
	s.pool = append(s.pool, s.addrs...)
	for i := 0; i < 3; i++ { // never existing: absence proofs
		var a common.Address
		rng.Read(a[:])
		s.pool = append(s.pool, a)
	}
	for _, c := range s.contracts {
		s.pool = append(s.pool, crypto.CreateAddress(c, 1))
	}
	// a few generated programs as additional call targets (never the transaction's sender)
	for i := 0; i < 3 && !minimal; i++ {
		a := common.BytesToAddress([]byte{0x9e, 0x47, byte(i + 1)})
		p := proggen.Gen(rng, proggen.Opts{Fork: fork, Addrs: s.pool, MaxLen: 200, NoUnbounded: true, Hostile: -1})
		alloc[a] = types.Account{Nonce: 1, Code: p.Code, Balance: big.NewInt(1000), Storage: map[common.Hash]common.Hash{common.BigToHash(big.NewInt(1)): common.BigToHash(big.NewInt(3))}}
		s.progs = append(s.progs, a)
	}
	s.pool = append(s.pool, s.progs...)
	s.gspec = &core.Genesis{Config: s.cfg, Alloc: alloc, GasLimit: blockGas, BaseFee: big.NewInt(params.InitialBaseFee)}
	return s
}

func (s *scenario) randCmds(rng *rand.Rand, c common.Address, blockNum uint64, feats map[string]bool, depth int) []opvm.Cmd {
	n := s.nslots[c]
	slot := uint64(rng.Intn(n + 3))
	a := pick(rng, s.pool)
	switch k := rng.Intn(100); {
	case k < 12:
		feats["sstore"] = true
		return []opvm.Cmd{opvm.C(opvm.OpSstore, slot, uint64(1+rng.Intn(5)))}
	case k < 24:
		feats["delete"] = true
		return []opvm.Cmd{opvm.C(opvm.OpSstore, slot, 0)}
	case k < 32:
		return []opvm.Cmd{opvm.C(opvm.OpLogSload, slot, 0)}
	case k < 38:
		return []opvm.Cmd{opvm.C(opvm.OpIncr, slot, 1)}
	case k < 46:
		feats["value-call"] = true
		return []opvm.Cmd{opvm.CA(opvm.OpCallValue, a, big.NewInt(int64(rng.Intn(3))))}
	case k < 54:
		feats["balance"] = true
		return []opvm.Cmd{opvm.CA(opvm.OpLogBalance, a, nil)}
	case k < 58:
		feats["selfdestruct"] = true
		return []opvm.Cmd{opvm.CA(opvm.OpSelfdestruct, a, nil)}
	case k < 61:
		feats["revert"] = true
		return []opvm.Cmd{opvm.C(opvm.OpRevert, 0, 0)}
	case k < 69:
		feats["extcode"] = true
		return []opvm.Cmd{opvm.CA(pick(rng, []uint64{opvm.OpLogExtcode, opvm.OpLogExtcopy}), a, nil)}
	case k < 73:
		feats["create"] = true
		return []opvm.Cmd{opvm.C(pick(rng, []uint64{opvm.OpCreate, opvm.OpCreate2, opvm.OpCreateInitSst}), uint64(rng.Intn(2)), uint64(rng.Intn(3)))}
	case k < 77:
		feats["create-suicide"] = true
		return []opvm.Cmd{opvm.C(opvm.OpCreateSuicide, 0, uint64(rng.Intn(3)))}
	case k < 86:
		d := uint64(1 + rng.Intn(4))
		if rng.Intn(3) == 0 {
			d = uint64(1 + rng.Intn(int(blockNum)+1))
		}
		if d > 1 {
			feats["blockhash-ancestor"] = true
		} else {
			feats["blockhash-parent"] = true
		}
		if rng.Intn(2) == 0 {
			return []opvm.Cmd{opvm.C(opvm.OpLogBlockhash, d, 0)}
		}
		return []opvm.Cmd{opvm.C(opvm.OpSstoreBlkhash, slot, d)}
	case k < 89:
		return []opvm.Cmd{opvm.C(opvm.OpLogCoinbase, 0, 0)}
	default:
		if depth >= 2 {
			return []opvm.Cmd{opvm.C(opvm.OpSload, slot, 0)}
		}
		feats["nested"] = true
		t := pick(rng, s.contracts)
		out := []opvm.Cmd{opvm.CA(pick(rng, []uint64{opvm.OpCallRest, opvm.OpDelegateRest, opvm.OpStaticRest, opvm.OpCallcodeRest}), t, nil)}
		for i, m := 0, 1+rng.Intn(3); i < m; i++ {
			out = append(out, s.randCmds(rng, t, blockNum, feats, depth+1)...)
		}
		return out
	}
}

func (s *scenario) randTx(rng *rand.Rand, blockNum uint64, feats map[string]bool) *types.Transaction {
	from := rng.Intn(nSenders)
	signer := types.LatestSigner(s.cfg)
	var to *common.Address
	var data []byte
	value := big.NewInt(int64(rng.Intn(3)))
	switch k := rng.Intn(100); {
	case k < 70:
		c := pick(rng, s.contracts)
		to = &c
		var cmds []opvm.Cmd
		for i, n := 0, 1+rng.Intn(4); i < n; i++ {
			cs := s.randCmds(rng, c, blockNum, feats, 0)
			cmds = append(cmds, cs...)
			if op := cs[0].Op; op >= opvm.OpCallRest && op <= opvm.OpStaticRest || op == opvm.OpCallcodeRest {
				break
			}
		}
		data = opvm.Encode(cmds...)
	case k < 80:
		a := pick(rng, s.pool)
		to = &a
		feats["transfer"] = true
	case k < 90:
		a := pick(rng, s.progs)
		to = &a
		data = make([]byte, rng.Intn(68))
		rng.Read(data)
		feats["proggen"] = true
	case k < 95 && s.fork != "Cancun":
		to = &params.WithdrawalQueueAddress
		data = make([]byte, 56)
		rng.Read(data)
		value = big.NewInt(1000)
		feats["sysreq"] = true
	default:
		data = opvm.CloneInit(rng.Intn(2) == 0)
		feats["create-tx"] = true
	}
	tx := types.MustSignNewTx(s.keys[from], signer, &types.DynamicFeeTx{
		ChainID: s.cfg.ChainID, Nonce: s.nonces[s.addrs[from]], To: to, Value: value, Gas: txGas,
		GasFeeCap: new(big.Int).Mul(big.NewInt(100), gwei), GasTipCap: new(big.Int).Mul(big.NewInt(int64(rng.Intn(3))), gwei), Data: data,
	})
	s.nonces[s.addrs[from]]++
	return tx
}

// ---- read monitor: an independent replay of the stateless execution over the witness
// database, built from public APIs only, recording which witness entries are read.

type recDB struct {
	ethdb.Database
	mu    sync.Mutex
	reads map[string]struct{}
}

func (d *recDB) note(k []byte) {
	d.mu.Lock()
	d.reads[string(k)] = struct{}{}
	d.mu.Unlock()
}
func (d *recDB) Get(k []byte) ([]byte, error) { d.note(k); return d.Database.Get(k) }
func (d *recDB) Has(k []byte) (bool, error)   { d.note(k); return d.Database.Has(k) }
func (d *recDB) ReadAncients(fn func(ethdb.AncientReaderOp) error) error {
	return fn(d)
}

type dudChain struct {
	cfg    *params.ChainConfig
	db     ethdb.Database
	engine consensus.Engine
	// headers fetched on behalf of the BLOCKHASH opcode (caller = core.GetHashFn's closure, possibly inlined into NewEVMBlockContext)
	mu        sync.Mutex
	blockhash map[common.Hash]struct{}
}

func calledFromGetHashFn() bool {
	var pcs [12]uintptr
	n := runtime.Callers(2, pcs[:])
	frames := runtime.CallersFrames(pcs[:n])
	for {
		f, more := frames.Next()
		if strings.Contains(f.Function, "GetHashFn") || strings.HasSuffix(f.Function, "vm.opBlockhash") {
			return true
		}
		if !more {
			return false
		}
	}
}

func (c *dudChain) Config() *params.ChainConfig               { return c.cfg }
func (c *dudChain) Engine() consensus.Engine                  { return c.engine }
func (c *dudChain) CurrentHeader() *types.Header              { return nil }
func (c *dudChain) GetHeaderByNumber(uint64) *types.Header    { return nil }
func (c *dudChain) GetHeaderByHash(common.Hash) *types.Header { return nil }
func (c *dudChain) GetHeader(h common.Hash, n uint64) *types.Header {
	if calledFromGetHashFn() {
		c.mu.Lock()
		c.blockhash[h] = struct{}{}
		c.mu.Unlock()
	}
	return rawdb.ReadHeader(c.db, h, n)
}

// replay returns the set of database keys read while executing task over the witness and
// the hashes of the headers that BLOCKHASH asked for.
func replay(cfg *params.ChainConfig, task *types.Block, w *stateless.Witness) (reads map[string]struct{}, bh map[common.Hash]struct{}, root, rroot common.Hash, err error) {
	db := &recDB{Database: w.MakeHashDB(), reads: map[string]struct{}{}}
	st, err := state.New(w.Root(), state.NewDatabase(triedb.NewDatabase(db, triedb.HashDefaults), state.NewCodeDB(db)))
	if err != nil {
		return nil, nil, common.Hash{}, common.Hash{}, err
	}
	chain := &dudChain{cfg: cfg, db: db, engine: beacon.New(ethash.NewFaker()), blockhash: map[common.Hash]struct{}{}}
	res, err := core.NewStateProcessor(chain).Process(context.Background(), task, st, nil, nil, vm.Config{}, nil)
	if err != nil {
		return nil, nil, common.Hash{}, common.Hash{}, err
	}
	rroot = types.DeriveSha(res.Receipts, trie.NewStackTrie(nil))
	root = st.IntermediateRoot(cfg.Rules(task.Number(), task.Difficulty().Sign() == 0, task.Time()))
	return db.reads, chain.blockhash, root, rroot, st.Error()
}

type element struct {
	kind string // state | code | header
	key  string // element identity inside the witness
	dbk  string // database key under which MakeHashDB stores it
	idx  int    // header index
}

func elementsOf(w *stateless.Witness) []element {
	var out []element
	for n := range w.State {
		out = append(out, element{kind: "state", key: n, dbk: string(crypto.Keccak256([]byte(n)))})
	}
	for c := range w.Codes {
		out = append(out, element{kind: "code", key: c, dbk: "c" + string(crypto.Keccak256([]byte(c)))})
	}
	for i, h := range w.Headers {
		var num [8]byte
		n := h.Number.Uint64()
		for j := 7; j >= 0; j-- {
			num[j] = byte(n)
			n >>= 8
		}
		hh := h.Hash()
		out = append(out, element{kind: "header", key: hh.Hex(), dbk: "h" + string(num[:]) + string(hh[:]), idx: i})
	}
	sort.Slice(out, func(i, j int) bool {
		if out[i].kind != out[j].kind {
			return out[i].kind < out[j].kind
		}
		return out[i].key < out[j].key
	})
	return out
}

func without(w *stateless.Witness, e element) *stateless.Witness {
	c := w.Copy()
	switch e.kind {
	case "state":
		delete(c.State, e.key)
	case "code":
		delete(c.Codes, e.key)
	case "header":
		c.Headers = append(append([]*types.Header{}, c.Headers[:e.idx]...), c.Headers[e.idx+1:]...)
	}
	return c
}

func featStr(f map[string]bool) string {
	var k []string
	for x := range f {
		k = append(k, x)
	}
	sort.Strings(k)
	return strings.Join(k, ",")
}

// runCase judges one chain. ci < 0 is the fixed minimal chain: Cancun, hash scheme, no
// contracts, one block with a single 1-wei transfer between two funded accounts.
func runCase(r *vrt.Run, ci int) {
	rng := r.Rand("chain", ci)
	fork := pick(rng, []string{"Cancun", "Prague", "Osaka", "Amsterdam"})
	scheme := pick(rng, []string{rawdb.HashScheme, rawdb.PathScheme})
	minimal := ci < 0
	if minimal {
		fork, scheme = "Cancun", rawdb.HashScheme
	}
	s := newScenario(rng, fork, minimal)
	engine := beacon.New(ethash.NewFaker())
	nBlocks := r.N(4, 6)
	if r.Race() {
		nBlocks = 2
	}
	if minimal {
		nBlocks = 1
	}
	genDb, _, _ := core.GenerateChainWithGenesis(s.gspec, engine, 0, nil)
	bcfg := core.DefaultConfig()
	bcfg.StateScheme = scheme
	if rng.Intn(2) == 0 {
		bcfg.SnapshotLimit = 0
	}
	bcfg.NoPrefetch = rng.Intn(2) == 0
	bc, err := core.NewBlockChain(rawdb.NewMemoryDatabase(), s.gspec, engine, bcfg)
	if err != nil {
		panic(err)
	}
	defer bc.Stop()
	ctx := context.Background()
	parent := bc.GetBlockByNumber(0)
	for bi := 0; bi < nBlocks; bi++ {
		feats := map[string]bool{}
		r.Case("chain %d (%s/%s) block %d: generate", ci, fork, scheme, bi+1)
		var txDesc []string
		blocks, _ := core.GenerateChain(s.cfg, parent, engine, genDb, 1, func(_ int, g *core.BlockGen) {
			g.SetCoinbase(pick(rng, s.pool))
			var br common.Hash
			rng.Read(br[:])
			g.SetParentBeaconRoot(br)
			for i, n := 0, 1+rng.Intn(7); i < n; i++ {
				var tx *types.Transaction
				if !minimal {
					tx = s.randTx(rng, uint64(bi+1), feats)
				} else {
					if i > 0 {
						break
					}
					tx = types.MustSignNewTx(s.keys[0], types.LatestSigner(s.cfg), &types.DynamicFeeTx{ChainID: s.cfg.ChainID, Nonce: 0, To: &s.addrs[1], Value: big.NewInt(1), Gas: 21000, GasFeeCap: new(big.Int).Mul(big.NewInt(100), gwei), GasTipCap: new(big.Int)})
				}
				g.AddTxWithChain(bc, tx)
				to := "create"
				if tx.To() != nil {
					to = tx.To().Hex()
				}
				txDesc = append(txDesc, fmt.Sprintf("to=%s value=%s data=%x", to, tx.Value(), tx.Data()))
			}
			if rng.Intn(3) == 0 && !minimal {
				g.AddWithdrawal(&types.Withdrawal{Index: uint64(bi), Validator: 1, Address: pick(rng, s.pool), Amount: uint64(rng.Intn(3))})
			}
		})
		block := blocks[0]
		wit := map[string]any{"chain": ci, "minimal": minimal, "fork": fork, "scheme": scheme, "block": bi + 1, "txs": txDesc}

		// full execution with witness collection
		r.Case("chain %d (%s/%s) block %d: full execution with witness", ci, fork, scheme, bi+1)
		witness, err := bc.InsertBlockWithoutSetHead(ctx, block, true)
		if err != nil {
			r.Violation("full-execution-rejects-generated-block", fmt.Sprintf("InsertBlockWithoutSetHead(makeWitness) fails on a generated block: %v", err), wit)
			return
		}
		if witness == nil {
			r.Inconclusive("no witness returned for chain %d block %d", ci, bi+1)
			return
		}
		if _, err := bc.SetCanonical(block); err != nil {
			panic(err)
		}
		parent = block
		// transport round trip, as a stateless verifier would receive it
		enc, err := rlp.EncodeToBytes(witness)
		if err != nil {
			panic(err)
		}
		w := new(stateless.Witness)
		if err := rlp.DecodeBytes(enc, w); err != nil {
			r.Violation("witness-rlp-roundtrip", fmt.Sprintf("collected witness does not decode: %v", err), wit)
			return
		}
		hd := block.Header()
		hd.Root, hd.ReceiptHash = common.Hash{}, common.Hash{}
		task := types.NewBlockWithHeader(hd).WithBody(*block.Body())
		withList := false
		if block.AccessList() != nil && rng.Intn(2) == 0 {
			task = task.WithAccessListUnsafe(block.AccessList()) // stateless run takes the access-list driven path
			withList = true
		}
		r.Count("blocks", 1)
		r.Count("txs", len(block.Transactions()))
		r.Count("witness_state_nodes", len(w.State))
		r.Count("witness_codes", len(w.Codes))
		r.Count("witness_headers", len(w.Headers))
		base := fmt.Sprintf("%s/%s/list=%v/feat=%s", fork, scheme, withList, featStr(feats))

		// (1) the full witness reproduces the block
		r.Case("chain %d (%s/%s) block %d: stateless, full witness", ci, fork, scheme, bi+1)
		root, rroot, err := core.ExecuteStateless(ctx, s.cfg, vm.Config{}, task, w)
		if err != nil {
			r.Violation("full-witness-fails", fmt.Sprintf("ExecuteStateless with the collected witness fails: %v", err), wit)
			r.Eval(base + "/full=error")
			continue
		}
		if root != block.Root() || rroot != block.ReceiptHash() {
			r.Violation("full-witness-different-roots", fmt.Sprintf("ExecuteStateless with the collected witness: state root %x (header %x), receipt root %x (header %x)", root, block.Root(), rroot, block.ReceiptHash()), wit)
			r.Eval(base + "/full=different")
			continue
		}
		r.Eval(base + "/full=ok")
		r.Count("full_witness_ok", 1)

		// read monitor
		reads, bhReads, mroot, mrroot, merr := replay(s.cfg, task, w)
		if merr != nil || mroot != block.Root() || mrroot != block.ReceiptHash() {
			r.Inconclusive("read monitor replay disagrees with the header on chain %d block %d: err=%v", ci, bi+1, merr)
			continue
		}

		// (2) every single-element removal
		els := elementsOf(w)
		limit := 400
		if r.Race() {
			limit = 40
		}
		if len(els) > limit {
			rng.Shuffle(len(els), func(i, j int) { els[i], els[j] = els[j], els[i] })
			els = els[:limit]
			r.Count("blocks_sampled_removals", 1)
		}
		for _, e := range els {
			if e.kind == "header" && len(w.Headers) == 1 {
				continue // a witness without any header is rejected by the decoder; Root() is documented to panic
			}
			_, read := reads[e.dbk]
			w2 := without(w, e)
			r.Case("chain %d (%s/%s) block %d: stateless without %s %x (read=%v)", ci, fork, scheme, bi+1, e.kind, crypto.Keccak256([]byte(e.key)), read)
			var root2, rroot2 common.Hash
			var err2 error
			perr, stack := vrt.Recover(func() { root2, rroot2, err2 = core.ExecuteStateless(ctx, s.cfg, vm.Config{}, task, w2) })
			r.Count("removals_"+e.kind, 1)
			outcome := "fail"
			switch {
			case perr != nil:
				outcome = "panic"
				r.Count("removal_panics", 1)
				r.Count("removal_panic_at_"+vrt.PanicSite(stack), 1)
			case err2 != nil:
			case root2 == block.Root() && rroot2 == block.ReceiptHash():
				outcome = "same"
			default:
				outcome = "different"
			}
			rd := map[bool]string{true: "read", false: "unread"}[read]
			r.Count("removal_"+rd+"_"+outcome, 1)
			ew := map[string]any{"chain": ci, "minimal": minimal, "fork": fork, "scheme": scheme, "block": bi + 1, "txs": txDesc, "removed_kind": e.kind, "removed": fmt.Sprintf("%x", e.key), "read_by_monitor": read, "with_access_list": withList}
			if e.kind == "header" {
				ew["removed"] = e.key
				ew["header_index"] = e.idx
			}
			switch outcome {
			case "different":
				// Fingerprints by root cause:
				//  :header            an ancestor header that BLOCKHASH fetched is missing; GetHashFn
				//                     maps it to the zero hash, there is no error channel (known finding)
				//  :header:other      a removed header that BLOCKHASH did not fetch changes the result
				//  :<kind>:unreported a missing node/code left an error in the StateDB that
				//                     ExecuteStateless did not turn into a failure
				//  :<kind>:silent     no error anywhere, yet a different result
				fp := "removal-different-result:" + e.kind
				dberr := "n/a"
				if e.kind == "header" {
					hh := common.HexToHash(e.key)
					if _, byBlockhash := bhReads[hh]; !byBlockhash {
						fp += ":other"
					}
					ew["fetched_by_blockhash"] = fp == "removal-different-result:header"
				} else {
					if _, _, _, _, e2 := replay(s.cfg, task, w2); e2 != nil {
						dberr = e2.Error()
						fp += ":unreported"
						r.Count("removal_different_with_unchecked_statedb_error", 1)
					} else {
						fp += ":silent"
					}
				}
				ew["statedb_error_after_execution"] = dberr
				r.Violation(fp, fmt.Sprintf("ExecuteStateless without one %s element returns no error but state root %x / receipt root %x instead of %x / %x (element read by the monitor: %v; StateDB.Error() after an equivalent replay: %s)", e.kind, root2, rroot2, block.Root(), block.ReceiptHash(), read, dberr), ew)
			case "same":
				// A trie node or code blob that the execution reads is gone, yet execution neither
				// failed nor changed its result: the read error was swallowed somewhere (the design
				// counts a read element as needed). Headers are exempt: BLOCKHASH has no error
				// channel (see the known finding) and its value may be irrelevant to the result.
				if read && e.kind != "header" {
					r.Violation("removal-of-read-element-unnoticed:"+e.kind, fmt.Sprintf("ExecuteStateless succeeds with the header's roots although a %s element that the execution reads was removed from the witness", e.kind), ew)
				}
			}
			r.Eval(fmt.Sprintf("%s/%s/list=%v/rm=%s/%s/%s", fork, scheme, withList, e.kind, rd, outcome))
		}
		if r.WantSample() && len(w.State) > 20 {
			r.Sample(map[string]any{"chain": ci, "fork": fork, "scheme": scheme, "block": bi + 1, "txs": len(txDesc), "features": featStr(feats), "witness": map[string]int{"state": len(w.State), "codes": len(w.Codes), "headers": len(w.Headers)}, "entries_read": len(reads)})
		}
	}
}

func run(r *vrt.Run) {
	r.Rule("each case: a chain (Cancun/Prague/Osaka/Amsterdam; hash or path scheme; with/without snapshots and prefetcher) of 4 (thorough 6) blocks built by core.GenerateChain with 1-7 random transactions against calldata-driven contracts (storage writes/deletions in tries of 0-40 slots, value calls, EXTCODE*, BALANCE of absent accounts, CREATE/CREATE2, create+selfdestruct onto a funded address, SELFDESTRUCT, BLOCKHASH of parent and deeper ancestors, nested calls, reverts), proggen programs, system contracts and withdrawals; every block is imported with witness collection and re-executed statelessly from the RLP round-tripped witness, then once per single removed witness element (state node / code / header). signature = (fork, scheme, access-list path, features of the block) for the full witness and (fork, scheme, removed kind, read by monitor?, outcome) for removals")
	n := r.N(16, 700)
	if r.Race() {
		n = r.N(6, 100)
	}
	runCase(r, -1)
	vrt.Par(n, 0, func(i int) { runCase(r, i) })
	{ // coverage obligations hold independently of the known finding firing
		r.Require("full_witness_ok", int64(n*2))
		r.Require("removals_state", int64(n*40))
		r.Require("removals_code", int64(n))
		r.Require("removals_header", int64(n/4))
		r.Require("removal_read_fail", int64(n*20))
	}
	r.Assume("read monitor: an independent re-execution (core.StateProcessor over state.New on Witness.MakeHashDB wrapped in a key-recording ethdb, own header reader) classifies witness entries as read / not read; it must itself reproduce the header roots or the block is not judged")
	r.Assume("blocks and their header roots come from core.GenerateChain (full-state sequential execution)")
	_ = bytes.Equal
}
