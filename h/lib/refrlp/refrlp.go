// Package refrlp is a deliberately naive, strict, canonical RLP codec written from the
// specification; it shares no code with go-ethereum's rlp package.
package refrlp

import (
	"errors"
	"fmt"
)

// Item is an RLP value: a byte string or a list of items.
type Item struct {
	IsList bool
	Str    []byte
	List   []*Item
}

func Str(b []byte) *Item        { return &Item{Str: b} }
func List(items ...*Item) *Item { return &Item{IsList: true, List: items} }

var (
	ErrTrailing     = errors.New("refrlp: trailing bytes")
	ErrShort        = errors.New("refrlp: input too short")
	ErrNonCanonSize = errors.New("refrlp: non-canonical size")
	ErrNonCanonByte = errors.New("refrlp: single byte < 0x80 wrapped as string")
	ErrEmpty        = errors.New("refrlp: empty input")
)

// Decode decodes exactly one canonical value occupying all of b.
func Decode(b []byte) (*Item, error) {
	it, rest, err := DecodePrefix(b)
	if err != nil {
		return nil, err
	}
	if len(rest) != 0 {
		return nil, ErrTrailing
	}
	return it, nil
}

// Header parses one header: kind, content offset, content length.
func Header(b []byte) (isList bool, off, n int, err error) {
	if len(b) == 0 {
		return false, 0, 0, ErrEmpty
	}
	p := b[0]
	switch {
	case p < 0x80:
		return false, 0, 1, nil
	case p <= 0xb7:
		n = int(p - 0x80)
		if len(b) < 1+n {
			return false, 0, 0, ErrShort
		}
		if n == 1 && b[1] < 0x80 {
			return false, 0, 0, ErrNonCanonByte
		}
		return false, 1, n, nil
	case p <= 0xbf:
		return longHeader(b, int(p-0xb7), false)
	case p <= 0xf7:
		n = int(p - 0xc0)
		if len(b) < 1+n {
			return true, 0, 0, ErrShort
		}
		return true, 1, n, nil
	default:
		return longHeader(b, int(p-0xf7), true)
	}
}

func longHeader(b []byte, ll int, isList bool) (bool, int, int, error) {
	if len(b) < 1+ll {
		return isList, 0, 0, ErrShort
	}
	if b[1] == 0 {
		return isList, 0, 0, ErrNonCanonSize
	}
	var n uint64
	for _, c := range b[1 : 1+ll] {
		n = n<<8 | uint64(c)
	}
	if n < 56 {
		return isList, 0, 0, ErrNonCanonSize
	}
	if n > uint64(len(b)) || uint64(1+ll)+n > uint64(len(b)) {
		return isList, 0, 0, ErrShort
	}
	return isList, 1 + ll, int(n), nil
}

// DecodePrefix decodes one canonical value at the start of b and returns the rest.
func DecodePrefix(b []byte) (*Item, []byte, error) {
	isList, off, n, err := Header(b)
	if err != nil {
		return nil, nil, err
	}
	content, rest := b[off:off+n], b[off+n:]
	if !isList {
		return &Item{Str: append([]byte{}, content...)}, rest, nil
	}
	it := &Item{IsList: true, List: []*Item{}}
	for len(content) > 0 {
		var ch *Item
		ch, content, err = DecodePrefix(content)
		if err != nil {
			return nil, nil, fmt.Errorf("in list: %w", err)
		}
		it.List = append(it.List, ch)
	}
	return it, rest, nil
}

func putLen(base byte, n int) []byte {
	if n < 56 {
		return []byte{base + byte(n)}
	}
	var lb []byte
	for x := n; x > 0; x >>= 8 {
		lb = append([]byte{byte(x)}, lb...)
	}
	return append([]byte{base + 55 + byte(len(lb))}, lb...)
}

// EncodeString encodes a byte string.
func EncodeString(s []byte) []byte {
	if len(s) == 1 && s[0] < 0x80 {
		return []byte{s[0]}
	}
	return append(putLen(0x80, len(s)), s...)
}

// EncodeListRaw wraps already-encoded items into a list.
func EncodeListRaw(items ...[]byte) []byte {
	var body []byte
	for _, it := range items {
		body = append(body, it...)
	}
	return append(putLen(0xc0, len(body)), body...)
}

// Encode encodes an item canonically.
func Encode(it *Item) []byte {
	if !it.IsList {
		return EncodeString(it.Str)
	}
	enc := make([][]byte, len(it.List))
	for i, c := range it.List {
		enc[i] = Encode(c)
	}
	return EncodeListRaw(enc...)
}

// EncodeUint encodes an unsigned integer as a minimal big-endian string.
func EncodeUint(x uint64) []byte {
	var b []byte
	for ; x > 0; x >>= 8 {
		b = append([]byte{byte(x)}, b...)
	}
	return EncodeString(b)
}

// Equal compares two items structurally.
func Equal(a, b *Item) bool {
	if a.IsList != b.IsList {
		return false
	}
	if !a.IsList {
		return string(a.Str) == string(b.Str)
	}
	if len(a.List) != len(b.List) {
		return false
	}
	for i := range a.List {
		if !Equal(a.List[i], b.List[i]) {
			return false
		}
	}
	return true
}
