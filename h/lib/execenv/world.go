package execenv

import (
	"math/big"
	"math/rand"

	"github.com/ethereum/go-ethereum/common"
	"github.com/holiman/uint256"

	"verif/lib/proggen"
)

// WorldOpts tune BuildWorld.
type WorldOpts struct {
	Contracts      int  // number of generated contracts (default 6)
	Senders        int  // keys 0..Senders-1 are funded senders (default 4)
	OtherEOAs      int  // keys 100.. are funded non-sender EOAs (default 3)
	Fresh          int  // absent addresses (default 4)
	Strict         bool // only monotone, mostly succeeding programs
	NoSelfdestruct bool
	ProggenShare   int // one in ProggenShare contracts comes from lib/proggen (0 = none)
	Tag            byte
}

// WorldInfo describes a generated world beyond the address lists.
type WorldInfo struct {
	Progs    []Prog // per contract; proggen programs have Monotone=false
	Proggen  []bool
	Feat     Features
	Monotone bool // every contract program is Monotone
}

// BuildWorld generates contracts, EOAs and the pre-state allocation for fork f.
func BuildWorld(rng *rand.Rand, f Fork, o WorldOpts) (*World, map[common.Address]Account, *WorldInfo) {
	if o.Contracts == 0 {
		o.Contracts = 6
	}
	if o.Senders == 0 {
		o.Senders = 4
	}
	if o.OtherEOAs == 0 {
		o.OtherEOAs = 3
	}
	if o.Fresh == 0 {
		o.Fresh = 4
	}
	w := &World{Fork: f, Coinbase: common.HexToAddress("0xc01bba5e00000000000000000000000000000001")}
	for i := 0; i < o.Contracts; i++ {
		w.Contracts = append(w.Contracts, common.BytesToAddress([]byte{0xc0, 0xde, byte(i + 1)}))
	}
	for i := 0; i < o.Senders; i++ {
		_, a := Key(i)
		w.EOAs = append(w.EOAs, a)
	}
	for i := 0; i < o.OtherEOAs; i++ {
		_, a := Key(100 + i)
		w.EOAs = append(w.EOAs, a)
	}
	for i := 0; i < o.Fresh; i++ {
		w.Fresh = append(w.Fresh, common.BytesToAddress([]byte{0xf4, 0xe5, o.Tag, byte(i + 1)}))
	}
	info := &WorldInfo{Monotone: true}
	alloc := map[common.Address]Account{}
	for i, a := range w.Contracts {
		var p Prog
		pg := o.ProggenShare > 0 && rng.Intn(o.ProggenShare) == 0
		if pg {
			q := proggen.Gen(rng, proggen.Opts{Fork: f.ProggenName(), Addrs: append(append([]common.Address{}, w.Contracts...), w.EOAs...), MaxLen: 300, AllowGasDependent: !o.Strict})
			p = Prog{Code: q.Code}
		} else {
			p = GenProgram(rng, w, GenOpts{Strict: o.Strict, NoSelfdestruct: o.NoSelfdestruct, MaxStmts: 4 + rng.Intn(8)})
		}
		info.Progs = append(info.Progs, p)
		info.Proggen = append(info.Proggen, pg)
		info.Feat |= p.Feat
		if !p.Monotone {
			info.Monotone = false
		}
		acc := Account{Code: p.Code, Nonce: 1, Balance: uint256.NewInt(0), Storage: map[common.Hash]common.Hash{}}
		if rng.Intn(3) > 0 {
			acc.Balance = uint256.NewInt(1_000_000_000_000_000_000 + uint64(rng.Intn(1000)))
		}
		for s := 0; s < 4; s++ {
			if rng.Intn(2) == 0 {
				acc.Storage[common.BigToHash(big.NewInt(int64(s)))] = common.BigToHash(big.NewInt(int64(1 + rng.Intn(3))))
			}
		}
		if rng.Intn(2) == 0 || i == 0 {
			for s := 16; s < 40; s++ {
				acc.Storage[common.BigToHash(big.NewInt(int64(s)))] = common.BigToHash(big.NewInt(5))
			}
		}
		alloc[a] = acc
	}
	rich := new(uint256.Int).Exp(uint256.NewInt(10), uint256.NewInt(24))
	for _, a := range w.EOAs {
		alloc[a] = Account{Balance: rich.Clone()}
	}
	return w, alloc, info
}
