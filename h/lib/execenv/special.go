package execenv

import (
	"github.com/ethereum/go-ethereum/common"
	"github.com/ethereum/go-ethereum/core/vm"
)

// Hand-written scenario contracts for situations the random generator reaches too rarely.

// Kamikaze returns code that self-destructs to beneficiary when called without value and
// simply accepts the ether when called with value (so that ether can arrive at an account
// that already self-destructed in the same transaction).
func Kamikaze(beneficiary common.Address) []byte {
	a := &asm{}
	l := a.newLabel()
	a.op(vm.CALLVALUE, vm.ISZERO).pushLabel(l).op(vm.JUMPI, vm.STOP)
	a.bind(l).pushAddr(beneficiary).op(vm.SELFDESTRUCT)
	return a.bytes()
}

// DeployCode returns init code that deploys runtime (valid in every rule set).
func DeployCode(runtime []byte) []byte {
	a := &asm{}
	d := a.newLabel()
	a.push(uint64(len(runtime))).pushLabel(d).push(0).op(vm.CODECOPY)
	a.push(uint64(len(runtime))).push(0).op(vm.RETURN)
	a.mark(d)
	a.b = append(a.b, runtime...)
	return a.bytes()
}

// DoubleTap calls target without value (a Kamikaze self-destructs) and then with value v
// (the ether stays in the self-destructed account), then stops.
func DoubleTap(target common.Address, v uint64) []byte {
	a := &asm{}
	for _, val := range []uint64{0, v} {
		a.push(0).push(0).push(0).push(0).push(val).pushAddr(target).push(100000).op(vm.CALL, vm.POP)
	}
	a.op(vm.STOP)
	return a.bytes()
}

// FactoryDoubleTap creates a Kamikaze(beneficiary), makes it self-destruct and then sends it
// v wei, all in one transaction (EIP-6780: created and destroyed in the same transaction).
func FactoryDoubleTap(beneficiary common.Address, v uint64, create2 bool) []byte {
	init := DeployCode(Kamikaze(beneficiary))
	a := &asm{}
	d := a.newLabel()
	a.push(uint64(len(init))).pushLabel(d).push(0x100).op(vm.CODECOPY)
	if create2 {
		a.push(7).push(uint64(len(init))).push(0x100).push(0).op(vm.CREATE2)
	} else {
		a.push(uint64(len(init))).push(0x100).push(0).op(vm.CREATE)
	}
	for _, val := range []uint64{0, v} {
		a.push(0).push(0).push(0).push(0).push(val).op(vm.DUP6).push(100000).op(vm.CALL, vm.POP)
	}
	a.op(vm.POP, vm.STOP)
	a.mark(d)
	a.b = append(a.b, init...)
	return a.bytes()
}
