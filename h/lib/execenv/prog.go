package execenv

import (
	"math/rand"

	"github.com/ethereum/go-ethereum/common"
	"github.com/ethereum/go-ethereum/core/vm"
)

// This file contains a small *targeted* program generator: stack-neutral statements that
// move value, grow/shrink state and nest calls in a bounded way. It complements the general
// purpose lib/proggen: programs generated here almost always run to a meaningful end
// (deep call trees, creates with endowment, self-destructs, storage set/clear cycles), which
// is what the gas-settlement, ether-conservation and gas-estimation monitors need.
//
// Memory layout used by generated programs:
//
//	0x00..0x1f  outgoing calldata word; byte 0 = remaining nesting budget - 1
//	0x20..0x3f  the program's own nesting budget d (calldata byte 0); calls happen only if d>0
//	0x40..0x5f  loop counter
//	0x80..      scratch (hash input, log data, init code for CREATE)
//
// Nesting is bounded by data, never by gas: the transaction's first calldata byte is the
// budget, every nested call passes budget-1, init code runs with budget 0.

type asm struct {
	b   []byte
	fix []int // positions of PUSH2 immediates that refer to labels (label id stored in the 2 bytes)
	lbl []int // label id -> position
}

func (a *asm) op(ops ...vm.OpCode) *asm {
	for _, o := range ops {
		a.b = append(a.b, byte(o))
	}
	return a
}

// push emits the minimal PUSHn for v (PUSH1 0 for zero: valid in every rule set).
func (a *asm) push(v uint64) *asm {
	if v == 0 {
		a.b = append(a.b, byte(vm.PUSH1), 0)
		return a
	}
	var tmp [8]byte
	n := 0
	for x := v; x > 0; x >>= 8 {
		n++
	}
	for i := 0; i < n; i++ {
		tmp[i] = byte(v >> (8 * uint(n-1-i)))
	}
	a.b = append(a.b, byte(vm.PUSH1)+byte(n-1))
	a.b = append(a.b, tmp[:n]...)
	return a
}

func (a *asm) pushBytes(b []byte) *asm {
	for len(b) > 1 && b[0] == 0 {
		b = b[1:]
	}
	if len(b) == 0 {
		b = []byte{0}
	}
	a.b = append(a.b, byte(vm.PUSH1)+byte(len(b)-1))
	a.b = append(a.b, b...)
	return a
}

func (a *asm) pushAddr(x common.Address) *asm {
	a.b = append(a.b, byte(vm.PUSH20))
	a.b = append(a.b, x[:]...)
	return a
}

func (a *asm) newLabel() int { a.lbl = append(a.lbl, -1); return len(a.lbl) - 1 }

func (a *asm) pushLabel(l int) *asm {
	a.b = append(a.b, byte(vm.PUSH2), byte(l>>8), byte(l))
	a.fix = append(a.fix, len(a.b)-2)
	return a
}

func (a *asm) bind(l int) *asm { a.lbl[l] = len(a.b); return a.op(vm.JUMPDEST) }

// mark binds l to the current position without emitting a JUMPDEST (data segments).
func (a *asm) mark(l int) *asm { a.lbl[l] = len(a.b); return a }

func (a *asm) bytes() []byte {
	out := append([]byte{}, a.b...)
	for _, p := range a.fix {
		l := int(out[p])<<8 | int(out[p+1])
		pos := a.lbl[l]
		if pos < 0 {
			pos = 0xffff
		}
		out[p], out[p+1] = byte(pos>>8), byte(pos)
	}
	return out
}

// Features describe what a generated program may do (evidence / shape signatures).
type Features uint32

const (
	FSstoreSet Features = 1 << iota
	FSstoreClear
	FSstoreReset
	FCallValue
	FCallNewAccount
	FCallChecked
	FCallUnchecked
	FCreate
	FCreate2
	FCreateEndow
	FSelfdestruct
	FRevert
	FInvalid
	FLog
	FLoop
	FDelegate
	FStatic
	FPrecompile
	FGasOp
	FRecursion
)

// Prog is a generated program.
type Prog struct {
	Code []byte
	Feat Features
	// Monotone: the program never reads GAS and every call/create whose failure could depend
	// on the gas available is checked, with failure propagated (revert/invalid). If every
	// program reachable in a transaction is Monotone, success of the transaction is monotone
	// in the gas limit.
	Monotone bool
}

// World is what a program may refer to.
type World struct {
	Fork      Fork
	Contracts []common.Address // addresses that will hold generated programs
	EOAs      []common.Address // funded externally owned accounts
	Fresh     []common.Address // addresses absent from the pre-state
	Coinbase  common.Address
}

// GenOpts tune generation.
type GenOpts struct {
	Strict         bool // only Monotone programs, failing constructs are rare
	NoSelfdestruct bool
	MaxStmts       int
	InitCode       bool // generating init code (ends by returning runtime code)
}

type gen struct {
	rng  *rand.Rand
	w    *World
	o    GenOpts
	a    *asm
	feat Features
	mono bool
	fail int // label of the shared failure block
	data [][]byte
	dlbl []int
}

func (g *gen) has(f Fork) bool { return g.w.Fork >= f }

// GenProgram generates one program for the world w.
func GenProgram(rng *rand.Rand, w *World, o GenOpts) Prog {
	if o.MaxStmts == 0 {
		o.MaxStmts = 8
	}
	g := &gen{rng: rng, w: w, o: o, a: &asm{}, mono: true}
	a := g.a
	g.fail = a.newLabel()
	// prologue: d = calldata[0]; mem[0x20] = d; mem[0] (byte) = d-1
	a.push(0).op(vm.CALLDATALOAD).push(0).op(vm.BYTE)
	a.push(1).op(vm.DUP2, vm.SUB).push(0).op(vm.MSTORE8)
	a.push(0x20).op(vm.MSTORE)

	n := 1 + rng.Intn(o.MaxStmts)
	for i := 0; i < n; i++ {
		g.stmt()
	}
	g.terminal()
	// shared failure block
	a.bind(g.fail)
	if g.has(Byzantium) {
		a.push(0).push(0).op(vm.REVERT)
	} else {
		a.op(vm.INVALID)
	}
	// data segments (init codes)
	for i, d := range g.data {
		a.mark(g.dlbl[i])
		a.b = append(a.b, d...)
	}
	return Prog{Code: a.bytes(), Feat: g.feat, Monotone: g.mono}
}

var slotVals = []uint64{0, 0, 1, 2, 0xffffffff}

func (g *gen) stmt() {
	a, rng := g.a, g.rng
	switch k := rng.Intn(100); {
	case k < 22: // SSTORE
		slot := uint64(rng.Intn(4))
		v := slotVals[rng.Intn(len(slotVals))]
		a.push(v).push(slot).op(vm.SSTORE)
		if v == 0 {
			g.feat |= FSstoreClear
		} else {
			g.feat |= FSstoreSet
		}
	case k < 27: // set then clear the same slot (refund patterns 0->x->0, a->b->a)
		slot := uint64(rng.Intn(4))
		a.push(7).push(slot).op(vm.SSTORE)
		a.push(slotVals[rng.Intn(2)*2]).push(slot).op(vm.SSTORE)
		g.feat |= FSstoreReset | FSstoreSet
	case k < 31:
		a.push(uint64(rng.Intn(4))).op(vm.SLOAD, vm.POP)
	case k < 36: // memory + hash
		a.push(rng.Uint64()).push(0x80 + uint64(rng.Intn(8))*32).op(vm.MSTORE)
		a.push(uint64(rng.Intn(200))).push(0x80).op(vm.KECCAK256, vm.POP)
	case k < 40: // log
		topics := rng.Intn(3)
		for t := 0; t < topics; t++ {
			a.push(uint64(t + 1))
		}
		a.push(uint64(rng.Intn(64))).push(0x80).op(vm.LOG0 + vm.OpCode(topics))
		g.feat |= FLog
	case k < 44: // arithmetic
		a.push(rng.Uint64()).push(rng.Uint64())
		a.op([]vm.OpCode{vm.ADD, vm.MUL, vm.EXP, vm.DIV, vm.SMOD, vm.XOR}[rng.Intn(6)], vm.POP)
	case k < 47: // balance / extcodesize of some address
		a.pushAddr(g.anyAddr()).op([]vm.OpCode{vm.BALANCE, vm.EXTCODESIZE}[rng.Intn(2)], vm.POP)
	case k < 52: // counted loop writing storage
		g.loop()
	case k < 82:
		g.call()
	case k < 94:
		g.create()
	default:
		// input-dependent early exit: if calldata byte 1 has a given bit set, fail or stop
		bit := uint64(1) << uint(rng.Intn(8))
		skip := a.newLabel()
		a.push(0).op(vm.CALLDATALOAD).push(1).op(vm.BYTE).push(bit).op(vm.AND, vm.ISZERO).pushLabel(skip).op(vm.JUMPI)
		if rng.Intn(2) == 0 && !g.o.Strict {
			a.pushLabel(g.fail).op(vm.JUMP)
			g.feat |= FRevert
		} else {
			a.op(vm.STOP)
		}
		a.bind(skip)
	}
}

func (g *gen) loop() {
	a, rng := g.a, g.rng
	n := uint64(2 + rng.Intn(4))
	base := uint64(16 + rng.Intn(3)*8)
	val := uint64(rng.Intn(2)) * 5
	// mem[0x40] = n
	a.push(n).push(0x40).op(vm.MSTORE)
	top := a.newLabel()
	a.bind(top)
	// sstore(base + i, val) with i = mem[0x40]
	a.push(val).push(0x40).op(vm.MLOAD).push(base).op(vm.ADD, vm.SSTORE)
	// i--
	a.push(1).push(0x40).op(vm.MLOAD, vm.SUB, vm.DUP1).push(0x40).op(vm.MSTORE)
	a.pushLabel(top).op(vm.JUMPI)
	g.feat |= FLoop
	if val == 0 {
		g.feat |= FSstoreClear
	} else {
		g.feat |= FSstoreSet
	}
}

func (g *gen) anyAddr() common.Address {
	w, rng := g.w, g.rng
	switch rng.Intn(5) {
	case 0:
		if len(w.EOAs) > 0 {
			return w.EOAs[rng.Intn(len(w.EOAs))]
		}
	case 1:
		if len(w.Fresh) > 0 {
			return w.Fresh[rng.Intn(len(w.Fresh))]
		}
	case 2:
		return w.Coinbase
	}
	if len(w.Contracts) > 0 {
		return w.Contracts[rng.Intn(len(w.Contracts))]
	}
	return common.Address{0x99}
}

// value pushes a call/create endowment and reports whether it is non-zero.
func (g *gen) value() (uint64, bool) {
	switch g.rng.Intn(8) {
	case 0, 1, 2:
		return 0, false
	case 3:
		return 1, true
	case 4:
		return 1000, true
	case 5:
		return 1_000_000_007, true
	case 6:
		return uint64(g.rng.Intn(1_000_000)) + 1, true
	default:
		if g.o.Strict {
			return 3, true
		}
		return 1 << 62, true // usually more than the contract owns -> the call fails
	}
}

func (g *gen) call() {
	a, rng, w := g.a, g.rng, g.w
	kind := vm.CALL
	switch r := rng.Intn(20); {
	case r < 2 && g.has(Byzantium):
		kind = vm.STATICCALL
		g.feat |= FStatic
	case r < 4 && g.has(Homestead):
		kind = vm.DELEGATECALL
		g.feat |= FDelegate
	case r < 5:
		kind = vm.CALLCODE
	}
	// target
	var (
		target  common.Address
		hasCode bool
	)
	switch r := rng.Intn(20); {
	case r < 10 && len(w.Contracts) > 0:
		target, hasCode = w.Contracts[rng.Intn(len(w.Contracts))], true
		g.feat |= FRecursion
	case r < 13 && len(w.EOAs) > 0:
		target = w.EOAs[rng.Intn(len(w.EOAs))]
	case r < 17 && len(w.Fresh) > 0:
		target = w.Fresh[rng.Intn(len(w.Fresh))]
		g.feat |= FCallNewAccount
	case r < 18:
		target = w.Coinbase
	default:
		target = common.BytesToAddress([]byte{byte(1 + rng.Intn(4))}) // ecrecover..identity
		hasCode = true
		g.feat |= FPrecompile
	}
	skip := a.newLabel()
	// guard: only when the nesting budget is positive
	a.push(0x20).op(vm.MLOAD, vm.ISZERO).pushLabel(skip).op(vm.JUMPI)
	// args: outLen outOff inLen inOff [value] addr gas
	a.push(uint64(rng.Intn(2)) * 32).push(0x80)
	a.push(uint64(1 + rng.Intn(40))).push(0)
	if kind == vm.CALL || kind == vm.CALLCODE {
		v, nz := g.value()
		a.push(v)
		if nz {
			g.feat |= FCallValue
		}
	}
	a.pushAddr(target)
	// gas argument
	gasDependent := false
	switch r := rng.Intn(10); {
	case !g.has(Tangerine):
		// before EIP-150 asking for more than available is an out-of-gas: fixed amounts
		a.push([]uint64{0, 2300, 20000, 60000}[rng.Intn(4)])
	case r < 6:
		a.pushBytes(common.Hash{0xff, 0xff, 0xff, 0xff, 0xff, 0xff, 0xff, 0xff, 0xff, 0xff, 0xff, 0xff, 0xff, 0xff, 0xff, 0xff, 0xff, 0xff, 0xff, 0xff, 0xff, 0xff, 0xff, 0xff, 0xff, 0xff, 0xff, 0xff, 0xff, 0xff, 0xff, 0xff}.Bytes())
	case r < 8:
		a.push([]uint64{0, 2300, 30000, 100000}[rng.Intn(4)])
	case r < 9 && !g.o.Strict:
		a.op(vm.GAS)
		gasDependent = true
		g.feat |= FGasOp
	default:
		a.push(uint64(rng.Intn(200000)))
	}
	a.op(kind)
	checked := g.o.Strict || rng.Intn(2) == 0
	if checked {
		a.op(vm.ISZERO).pushLabel(g.fail).op(vm.JUMPI)
		g.feat |= FCallChecked
	} else {
		a.op(vm.POP)
		g.feat |= FCallUnchecked
		if hasCode {
			g.mono = false
		}
	}
	if gasDependent {
		g.mono = false
	}
	a.bind(skip)
}

// initCode builds init code of the given kind.
func (g *gen) initCode() []byte {
	rng := g.rng
	sub := &World{Fork: g.w.Fork, Contracts: g.w.Contracts, EOAs: g.w.EOAs, Fresh: g.w.Fresh, Coinbase: g.w.Coinbase}
	k := rng.Intn(12)
	if g.o.Strict && k >= 8 {
		k = rng.Intn(8)
	}
	ret := func(pre func(a *asm), runtime []byte) []byte {
		a := &asm{}
		if pre != nil {
			pre(a)
		}
		d := a.newLabel()
		a.push(uint64(len(runtime))).pushLabel(d).push(0).op(vm.CODECOPY)
		a.push(uint64(len(runtime))).push(0).op(vm.RETURN)
		a.mark(d)
		a.b = append(a.b, runtime...)
		return a.bytes()
	}
	switch {
	case k < 3: // deploy a small generated runtime
		rt := GenProgram(rng, sub, GenOpts{Strict: g.o.Strict, NoSelfdestruct: g.o.NoSelfdestruct, MaxStmts: 3})
		if !rt.Monotone {
			g.mono = false
		}
		return ret(nil, rt.Code)
	case k < 5: // constructor writes storage, then deploys
		return ret(func(a *asm) {
			a.push(9).push(uint64(rng.Intn(3))).op(vm.SSTORE)
			if rng.Intn(2) == 0 {
				a.push(0).push(uint64(rng.Intn(3))).op(vm.SSTORE)
			}
		}, []byte{byte(vm.STOP)})
	case k < 6: // empty runtime
		return []byte{byte(vm.STOP)}
	case k < 7: // larger runtime (code deposit cost)
		rt := make([]byte, 100+rng.Intn(1500))
		for i := range rt {
			rt[i] = byte(vm.JUMPDEST)
		}
		return ret(nil, rt)
	case k < 8: // constructor self-destructs (created and destroyed in one transaction)
		if g.o.NoSelfdestruct {
			return []byte{byte(vm.STOP)}
		}
		a := &asm{}
		a.push(5).push(1).op(vm.SSTORE)
		a.pushAddr(g.anyAddr())
		if rng.Intn(3) == 0 {
			a.op(vm.POP, vm.ADDRESS)
		}
		a.op(vm.SELFDESTRUCT)
		g.feat |= FSelfdestruct
		return a.bytes()
	case k < 9: // constructor reverts / fails
		a := &asm{}
		a.push(5).push(1).op(vm.SSTORE)
		if g.has(Byzantium) && rng.Intn(2) == 0 {
			a.push(0).push(0).op(vm.REVERT)
		} else {
			a.op(vm.INVALID)
		}
		return a.bytes()
	case k < 10: // 0xEF-prefixed runtime (rejected from London on)
		return ret(nil, []byte{0xef, 0x00, 0x01})
	case k < 11: // oversized runtime
		a := &asm{}
		a.push(24577 + uint64(rng.Intn(3))).push(0).op(vm.RETURN)
		return a.bytes()
	default: // constructor runs out of gas in a loop
		a := &asm{}
		top := a.newLabel()
		a.bind(top)
		a.push(1).push(0).op(vm.SSTORE)
		a.pushLabel(top).op(vm.JUMP)
		return a.bytes()
	}
}

func (g *gen) create() {
	a, rng := g.a, g.rng
	if g.o.InitCode {
		return
	}
	init := g.initCode()
	l := a.newLabel()
	g.data = append(g.data, init)
	g.dlbl = append(g.dlbl, l)
	// copy init code to memory 0x100
	a.push(uint64(len(init))).pushLabel(l).push(0x100).op(vm.CODECOPY)
	v, nz := g.value()
	if nz {
		g.feat |= FCreateEndow
	}
	if g.has(Petersburg) && rng.Intn(3) == 0 {
		// CREATE2(value, off, len, salt)
		a.push(uint64(rng.Intn(3))).push(uint64(len(init))).push(0x100).push(v).op(vm.CREATE2)
		g.feat |= FCreate2
	} else {
		a.push(uint64(len(init))).push(0x100).push(v).op(vm.CREATE)
		g.feat |= FCreate
	}
	if g.o.Strict || rng.Intn(2) == 0 {
		a.op(vm.ISZERO).pushLabel(g.fail).op(vm.JUMPI)
	} else {
		a.op(vm.POP)
		g.mono = false
	}
}

func (g *gen) terminal() {
	a, rng := g.a, g.rng
	r := rng.Intn(20)
	if g.o.Strict && r >= 14 && r < 18 {
		r = 0
	}
	switch {
	case r < 8:
		a.op(vm.STOP)
	case r < 12:
		a.push(uint64(rng.Intn(64))).push(0x80).op(vm.RETURN)
	case r < 14:
		if g.o.NoSelfdestruct {
			a.op(vm.STOP)
			return
		}
		// selfdestruct to self / coinbase / fresh / contract / eoa
		if rng.Intn(4) == 0 {
			a.op(vm.ADDRESS)
		} else {
			a.pushAddr(g.anyAddr())
		}
		a.op(vm.SELFDESTRUCT)
		g.feat |= FSelfdestruct
	case r < 16:
		a.pushLabel(g.fail).op(vm.JUMP)
		g.feat |= FRevert
	case r < 17:
		a.op(vm.INVALID)
		g.feat |= FInvalid
	case r < 18:
		// revert with data
		if g.has(Byzantium) {
			a.push(uint64(rng.Intn(40))).push(0x80).op(vm.REVERT)
			g.feat |= FRevert
		} else {
			a.op(vm.INVALID)
			g.feat |= FInvalid
		}
	default:
		a.op(vm.STOP)
	}
}

// GenInitCode generates init code for a contract-creation transaction or a CREATE.
func GenInitCode(rng *rand.Rand, w *World, o GenOpts) Prog {
	g := &gen{rng: rng, w: w, o: o, a: &asm{}, mono: true}
	code := g.initCode()
	return Prog{Code: code, Feat: g.feat | FCreate, Monotone: g.mono}
}

// ProggenFork maps a Fork to the name understood by lib/proggen.
func (f Fork) ProggenName() string {
	switch f {
	case Tangerine:
		return "EIP150"
	case Spurious:
		return "EIP158"
	case Petersburg:
		return "ConstantinopleFix"
	case Paris:
		return "Merge"
	}
	return f.String()
}
