// Package execenv builds small self-contained execution environments (chain configs per
// rule set, a one-block fake chain, generated pre-states, headers and signed transactions)
// for the harnesses that drive the real state transition (C31 settlement, C32 ether
// conservation, C37 gas estimation).
package execenv

import (
	"crypto/ecdsa"
	"fmt"
	"math/big"

	"github.com/ethereum/go-ethereum/common"
	"github.com/ethereum/go-ethereum/consensus"
	"github.com/ethereum/go-ethereum/consensus/beacon"
	"github.com/ethereum/go-ethereum/consensus/ethash"
	"github.com/ethereum/go-ethereum/core"
	"github.com/ethereum/go-ethereum/core/state"
	"github.com/ethereum/go-ethereum/core/tracing"
	"github.com/ethereum/go-ethereum/core/types"
	"github.com/ethereum/go-ethereum/crypto"
	"github.com/ethereum/go-ethereum/params"
	"github.com/holiman/uint256"
)

// Fork identifies a rule set; all earlier forks are active from genesis.
type Fork int

const (
	Frontier Fork = iota
	Homestead
	Tangerine // EIP-150
	Spurious  // EIP-155/158
	Byzantium
	Petersburg // Constantinople+Petersburg
	Istanbul
	Berlin
	London
	Paris // the merge
	Shanghai
	Cancun
	Prague
	Osaka
	Amsterdam
	NumForks
)

var forkNames = [...]string{"Frontier", "Homestead", "Tangerine", "Spurious", "Byzantium", "Petersburg", "Istanbul", "Berlin", "London", "Paris", "Shanghai", "Cancun", "Prague", "Osaka", "Amsterdam"}

func (f Fork) String() string { return forkNames[f] }

func u64(v uint64) *uint64 { return &v }

// Config returns a fresh chain configuration with every fork up to f active at genesis.
func Config(f Fork) *params.ChainConfig {
	c := &params.ChainConfig{ChainID: big.NewInt(1), Ethash: new(params.EthashConfig)}
	z := func() *big.Int { return big.NewInt(0) }
	if f >= Homestead {
		c.HomesteadBlock = z()
	}
	if f >= Tangerine {
		c.EIP150Block = z()
	}
	if f >= Spurious {
		c.EIP155Block, c.EIP158Block = z(), z()
	}
	if f >= Byzantium {
		c.ByzantiumBlock = z()
	}
	if f >= Petersburg {
		c.ConstantinopleBlock, c.PetersburgBlock = z(), z()
	}
	if f >= Istanbul {
		c.IstanbulBlock, c.MuirGlacierBlock = z(), z()
	}
	if f >= Berlin {
		c.BerlinBlock = z()
	}
	if f >= London {
		c.LondonBlock, c.ArrowGlacierBlock, c.GrayGlacierBlock = z(), z(), z()
	}
	if f >= Paris {
		c.MergeNetsplitBlock = z()
		c.TerminalTotalDifficulty = z()
	}
	if f >= Shanghai {
		c.ShanghaiTime = u64(0)
	}
	if f >= Cancun {
		c.CancunTime = u64(0)
		c.BlobScheduleConfig = &params.BlobScheduleConfig{Cancun: params.DefaultCancunBlobConfig}
	}
	if f >= Prague {
		c.PragueTime = u64(0)
		c.BlobScheduleConfig.Prague = params.DefaultPragueBlobConfig
		c.DepositContractAddress = params.MainnetChainConfig.DepositContractAddress
	}
	if f >= Osaka {
		c.OsakaTime = u64(0)
	}
	if f >= Amsterdam {
		c.AmsterdamTime = u64(0)
	}
	return c
}

// Chain is a fake one-parent chain: it knows the parent header of the block under
// execution and nothing else. It implements core.ChainContext.
type Chain struct {
	Cfg    *params.ChainConfig
	Eng    consensus.Engine
	Parent *types.Header
}

func (c *Chain) Config() *params.ChainConfig  { return c.Cfg }
func (c *Chain) Engine() consensus.Engine     { return c.Eng }
func (c *Chain) CurrentHeader() *types.Header { return c.Parent }
func (c *Chain) GetHeader(h common.Hash, n uint64) *types.Header {
	if c.Parent != nil && n == c.Parent.Number.Uint64() && h == c.Parent.Hash() {
		return c.Parent
	}
	return nil
}
func (c *Chain) GetHeaderByNumber(n uint64) *types.Header {
	if c.Parent != nil && n == c.Parent.Number.Uint64() {
		return c.Parent
	}
	return nil
}
func (c *Chain) GetHeaderByHash(h common.Hash) *types.Header {
	if c.Parent != nil && h == c.Parent.Hash() {
		return c.Parent
	}
	return nil
}

// NewChain returns the fake chain for fork f with a synthetic parent (block 0).
func NewChain(f Fork) *Chain {
	cfg := Config(f)
	var eng consensus.Engine = ethash.NewFaker()
	if f >= Paris {
		eng = beacon.New(ethash.NewFaker())
	}
	parent := &types.Header{
		Number:     big.NewInt(0),
		Difficulty: big.NewInt(131072),
		GasLimit:   30_000_000,
		Time:       1_000,
		Extra:      []byte("verif"),
	}
	if f >= Paris {
		parent.Difficulty = big.NewInt(0)
	}
	if f >= London {
		parent.BaseFee = big.NewInt(params.InitialBaseFee)
	}
	if f >= Shanghai {
		parent.WithdrawalsHash = &types.EmptyWithdrawalsHash
	}
	if f >= Cancun {
		parent.BlobGasUsed, parent.ExcessBlobGas = u64(0), u64(0)
		parent.ParentBeaconRoot = &common.Hash{}
	}
	if f >= Prague {
		parent.RequestsHash = &types.EmptyRequestsHash
	}
	return &Chain{Cfg: cfg, Eng: eng, Parent: parent}
}

// HeaderParams are the free parameters of the block under execution.
type HeaderParams struct {
	Coinbase      common.Address
	GasLimit      uint64
	BaseFee       *big.Int // London+
	ExcessBlobGas uint64   // Cancun+
	Random        common.Hash
}

// Header builds the header of block 1 on top of the chain's parent for fork f.
func (c *Chain) Header(f Fork, p HeaderParams) *types.Header {
	h := &types.Header{
		ParentHash: c.Parent.Hash(),
		Coinbase:   p.Coinbase,
		Number:     big.NewInt(1),
		Difficulty: big.NewInt(131072),
		GasLimit:   p.GasLimit,
		Time:       c.Parent.Time + 12,
		Extra:      []byte("verif"),
		MixDigest:  p.Random,
	}
	if f >= Paris {
		h.Difficulty = big.NewInt(0)
	}
	if f >= London {
		h.BaseFee = new(big.Int).Set(p.BaseFee)
	}
	if f >= Shanghai {
		h.WithdrawalsHash = &types.EmptyWithdrawalsHash
	}
	if f >= Cancun {
		h.BlobGasUsed, h.ExcessBlobGas = u64(0), u64(p.ExcessBlobGas)
		root := common.Hash{0xbe, 0xac, 0x01}
		h.ParentBeaconRoot = &root
	}
	if f >= Prague {
		h.RequestsHash = &types.EmptyRequestsHash
	}
	if f >= Amsterdam {
		h.SlotNumber = u64(77)
	}
	return h
}

// Rules returns the rule set of header h.
func (c *Chain) Rules(h *types.Header) params.Rules {
	return c.Cfg.Rules(h.Number, h.Difficulty.Sign() == 0, h.Time)
}

// Account is one pre-state account.
type Account struct {
	Balance *uint256.Int
	Nonce   uint64
	Code    []byte
	Storage map[common.Hash]common.Hash
}

// NewState builds a committed state containing alloc (and, when sys is set, the system
// contracts required by Prague+ block processing) and returns a fresh StateDB on top of it.
func NewState(alloc map[common.Address]Account, sys bool) (*state.StateDB, common.Hash, error) {
	sdb := state.NewDatabaseForTesting()
	st, err := state.New(types.EmptyRootHash, sdb)
	if err != nil {
		return nil, common.Hash{}, err
	}
	put := func(a common.Address, acc Account) {
		if acc.Balance != nil {
			st.SetBalance(a, acc.Balance, tracing.BalanceIncreaseGenesisBalance)
		} else {
			st.SetBalance(a, new(uint256.Int), tracing.BalanceIncreaseGenesisBalance)
		}
		st.SetNonce(a, acc.Nonce, tracing.NonceChangeGenesis)
		if len(acc.Code) > 0 {
			st.SetCode(a, acc.Code, tracing.CodeChangeGenesis)
		}
		for k, v := range acc.Storage {
			st.SetState(a, k, v)
		}
	}
	if sys {
		for a, g := range core.SystemContractAllocs() {
			if _, ok := alloc[a]; ok {
				continue
			}
			put(a, Account{Nonce: g.Nonce, Code: g.Code})
		}
	}
	for a, acc := range alloc {
		put(a, acc)
	}
	// Genesis-style commit: keep empty accounts out (EIP-158 semantics do not matter for
	// accounts we create deliberately: none of them is empty).
	root, err := st.Commit(params.Rules{}, 0)
	if err != nil {
		return nil, common.Hash{}, err
	}
	st2, err := state.New(root, sdb)
	if err != nil {
		return nil, common.Hash{}, err
	}
	return st2, root, nil
}

// Key returns the i-th deterministic test key and its address.
func Key(i int) (*ecdsa.PrivateKey, common.Address) {
	var b [32]byte
	b[0] = 0x7e
	b[30] = byte(i >> 8)
	b[31] = byte(i)
	b[1] = 0x01
	k, err := crypto.ToECDSA(b[:])
	if err != nil {
		panic(fmt.Sprintf("execenv: key %d: %v", i, err))
	}
	return k, crypto.PubkeyToAddress(k.PublicKey)
}

// BalanceSum iterates the committed state at root (full trie dump) and returns the sum of
// all balances and the per-account balances keyed by address hash.
func BalanceSum(db state.Database, root common.Hash) (*big.Int, map[common.Hash]*big.Int, error) {
	st, err := state.New(root, db)
	if err != nil {
		return nil, nil, err
	}
	c := &sumCollector{sum: new(big.Int), per: map[common.Hash]*big.Int{}}
	if _, err := st.DumpToCollector(c, &state.DumpConfig{SkipCode: true, SkipStorage: true}); err != nil {
		return nil, nil, err
	}
	if c.err != nil {
		return nil, nil, c.err
	}
	return c.sum, c.per, nil
}

type sumCollector struct {
	sum *big.Int
	per map[common.Hash]*big.Int
	err error
}

func (c *sumCollector) OnRoot(common.Hash) {}
func (c *sumCollector) OnAccount(addr *common.Address, a state.DumpAccount) {
	b, ok := new(big.Int).SetString(a.Balance, 10)
	if !ok {
		c.err = fmt.Errorf("bad balance %q", a.Balance)
		return
	}
	c.sum.Add(c.sum, b)
	var h common.Hash
	if len(a.AddressHash) == 32 {
		h = common.BytesToHash(a.AddressHash)
	} else if addr != nil {
		h = crypto.Keccak256Hash(addr[:])
	}
	c.per[h] = b
}
