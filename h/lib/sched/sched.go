// Package sched perturbs goroutine scheduling at verif-tagged yield points and records
// which interleavings of point passages were observed (evidence, not verdict).
//
// Usage: c := sched.New(seed); pkg.VerifYieldHook = c.Hook; ... c.Signature(), c.Hits().
// Actions never block on another goroutine, so they cannot manufacture a deadlock or an
// interleaving the program could not have by itself.
package sched

import (
	"hash/fnv"
	"runtime"
	"sync"
	"sync/atomic"
	"time"
)

type Controller struct {
	seed  uint64
	n     atomic.Uint64
	mu    sync.Mutex
	hits  map[string]int64
	ranks map[uint64]int
	sig   uint64
	// Intensity 0..100: probability (%) that a passage is perturbed at all.
	Intensity int
}

func New(seed uint64) *Controller {
	return &Controller{seed: seed | 1, hits: map[string]int64{}, ranks: map[uint64]int{}, Intensity: 60, sig: 1469598103934665603}
}

func mix(z uint64) uint64 {
	z += 0x9e3779b97f4a7c15
	z = (z ^ (z >> 30)) * 0xbf58476d1ce4e5b9
	z = (z ^ (z >> 27)) * 0x94d049bb133111eb
	return z ^ (z >> 31)
}

func goid() uint64 {
	var buf [40]byte
	n := runtime.Stack(buf[:], false)
	// "goroutine 123 ["
	var id uint64
	for _, c := range buf[10:n] {
		if c < '0' || c > '9' {
			break
		}
		id = id*10 + uint64(c-'0')
	}
	return id
}

// Hook is the yield-point callback.
func (c *Controller) Hook(point string) {
	k := c.n.Add(1)
	g := goid()
	c.mu.Lock()
	c.hits[point]++
	rk, ok := c.ranks[g]
	if !ok {
		rk = len(c.ranks)
		c.ranks[g] = rk
	}
	h := fnv.New64a()
	h.Write([]byte(point))
	c.sig = (c.sig ^ (h.Sum64() + uint64(rk)*0x9e3779b97f4a7c15)) * 1099511628211
	c.mu.Unlock()
	z := mix(c.seed ^ k*0x632be59bd9b4e019)
	if int(z%100) >= c.Intensity {
		return
	}
	switch a := (z >> 8) % 100; {
	case a < 50:
		runtime.Gosched()
	case a < 85:
		// spin 1..200 microseconds
		d := time.Duration(1+(z>>16)%200) * time.Microsecond
		t0 := time.Now()
		for time.Since(t0) < d {
		}
	default:
		time.Sleep(time.Duration(20+(z>>16)%400) * time.Microsecond)
	}
}

// Signature identifies the observed order of (goroutine rank, point) passages.
func (c *Controller) Signature() uint64 { c.mu.Lock(); defer c.mu.Unlock(); return c.sig }

// Hits returns per-point passage counts.
func (c *Controller) Hits() map[string]int64 {
	c.mu.Lock()
	defer c.mu.Unlock()
	m := make(map[string]int64, len(c.hits))
	for k, v := range c.hits {
		m[k] = v
	}
	return m
}
