// Package agg batches vrt counters and evaluation signatures in sharded local maps so that
// 16 workers judging millions of tiny cases do not serialise on the Run mutex. Flush must be
// called before r.Require / the end of run.
package agg

import (
	"sync"

	"verif/lib/vrt"
)

const nShards = 64

type shard struct {
	mu     sync.Mutex
	counts map[string]int
	evals  map[string]int
	_      [40]byte
}

// Agg is a sharded front for (*vrt.Run).Count and Eval.
type Agg struct {
	r      *vrt.Run
	shards [nShards]shard
}

func New(r *vrt.Run) *Agg {
	a := &Agg{r: r}
	for i := range a.shards {
		a.shards[i].counts = map[string]int{}
		a.shards[i].evals = map[string]int{}
	}
	return a
}

func (a *Agg) shard(i int) *shard {
	if i < 0 {
		i = -i
	}
	return &a.shards[i%nShards]
}

// Count adds n to counter name; i (the case index) only selects the shard.
func (a *Agg) Count(i int, name string, n int) {
	s := a.shard(i)
	s.mu.Lock()
	s.counts[name] += n
	s.mu.Unlock()
}

// Eval counts one judged case with shape signature sig ("" = trivial).
func (a *Agg) Eval(i int, sig string) {
	s := a.shard(i)
	s.mu.Lock()
	s.evals[sig]++
	s.mu.Unlock()
}

// Flush moves everything into the Run.
func (a *Agg) Flush() {
	for i := range a.shards {
		s := &a.shards[i]
		s.mu.Lock()
		for k, n := range s.counts {
			a.r.Count(k, n)
		}
		for k, n := range s.evals {
			a.r.EvalN(k, n)
		}
		s.counts = map[string]int{}
		s.evals = map[string]int{}
		s.mu.Unlock()
	}
}
