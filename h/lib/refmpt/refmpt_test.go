package refmpt_test

import (
	"bytes"
	"math/rand"
	"testing"

	"github.com/ethereum/go-ethereum/common"
	"github.com/ethereum/go-ethereum/trie"

	"verif/lib/refmpt"
	"verif/lib/trieh"
)

// Cross-check of the reference trie against go-ethereum's trie on freshly built tries
// (sanity of the oracle, not a property check): root, committed path-keyed node set,
// hashed node set, ChildRefs reachability.
func TestAgainstGeth(t *testing.T) {
	for seed := int64(1); seed <= 400; seed++ {
		rng := rand.New(rand.NewSource(seed))
		kind := trieh.SpaceKinds[rng.Intn(len(trieh.SpaceKinds))]
		sp := trieh.NewSpace(rng, kind, 1+rng.Intn(200))
		m := map[string][]byte{}
		n := rng.Intn(len(sp.Keys) + 1)
		for i := 0; i < n; i++ {
			m[string(sp.Key(rng))] = sp.Val(rng)
		}
		ref := refmpt.Build(m)
		tr := trie.NewEmpty(trieh.NewStore())
		for k, v := range m {
			tr.MustUpdate([]byte(k), v)
		}
		if h := tr.Hash(); !bytes.Equal(h[:], ref.Root) {
			t.Fatalf("seed %d kind %s n=%d: root %x ref %x", seed, kind, len(m), h, ref.Root)
		}
		root, set := tr.Commit(false)
		if !bytes.Equal(root[:], ref.Root) {
			t.Fatalf("seed %d: commit root", seed)
		}
		got := map[string][]byte{}
		if set != nil {
			for p, nd := range set.Nodes {
				if !nd.IsDeleted() {
					got[p] = nd.Blob
				}
			}
		}
		miss, stale, wrong := trieh.DiffStores(got, ref.Nodes, 5)
		if len(miss)+len(stale)+len(wrong) > 0 {
			t.Fatalf("seed %d kind %s n=%d: node sets differ: missing %v stale %v wrong %v", seed, kind, len(m), miss, stale, wrong)
		}
		// reachability through ChildRefs covers exactly the hashed node set
		hn := ref.HashedNodes()
		if len(m) > 0 {
			seen := map[string]bool{}
			var walk func(h []byte)
			walk = func(h []byte) {
				b, ok := hn[string(h)]
				if !ok {
					t.Fatalf("seed %d: child ref %x not in hashed nodes", seed, h)
				}
				seen[string(h)] = true
				for _, c := range refmpt.ChildRefs(b) {
					walk(c)
				}
			}
			walk(ref.Root)
			if len(seen) != len(hn) {
				t.Fatalf("seed %d: reachable %d hashed %d", seed, len(seen), len(hn))
			}
		}
		// Range/Get
		for i := 0; i < 20 && len(sp.Keys) > 0; i++ {
			k := sp.Key(rng)
			v := ref.Get(k)
			if !bytes.Equal(v, m[string(k)]) {
				t.Fatalf("get")
			}
		}
		_ = common.Hash{}
	}
}
