// Package refmpt is a reference Merkle-Patricia trie built recursively from a complete
// key/value set (no incremental insert/delete, hence no collapse logic), written from the
// yellow paper. It shares no code with go-ethereum's trie package.
package refmpt

import (
	"bytes"
	"sort"

	"golang.org/x/crypto/sha3"

	"verif/lib/refrlp"
)

// Keccak is legacy Keccak-256 from x/crypto.
func Keccak(b ...[]byte) []byte {
	h := sha3.NewLegacyKeccak256()
	for _, x := range b {
		h.Write(x)
	}
	return h.Sum(nil)
}

// EmptyRoot is keccak(rlp("")).
var EmptyRoot = Keccak([]byte{0x80})

// ---- hex-prefix (refhp) ----

// KeyToNibbles expands key bytes into nibbles (no terminator).
func KeyToNibbles(k []byte) []byte {
	n := make([]byte, 0, 2*len(k))
	for _, b := range k {
		n = append(n, b>>4, b&15)
	}
	return n
}

// NibblesToKey packs an even number of nibbles.
func NibblesToKey(n []byte) []byte {
	k := make([]byte, len(n)/2)
	for i := range k {
		k[i] = n[2*i]<<4 | n[2*i+1]
	}
	return k
}

// HP is the hex-prefix encoding of nibbles with flag t (leaf/terminator).
func HP(nib []byte, t bool) []byte {
	f := byte(0)
	if t {
		f = 2
	}
	var out []byte
	if len(nib)%2 == 1 {
		out = append(out, (f+1)<<4|nib[0])
		nib = nib[1:]
	} else {
		out = append(out, f<<4)
	}
	for i := 0; i < len(nib); i += 2 {
		out = append(out, nib[i]<<4|nib[i+1])
	}
	return out
}

// UnHP decodes a hex-prefix encoding.
func UnHP(c []byte) (nib []byte, t bool, ok bool) {
	if len(c) == 0 {
		return nil, false, false
	}
	f := c[0] >> 4
	if f > 3 {
		return nil, false, false
	}
	t = f&2 != 0
	if f&1 == 1 {
		nib = append(nib, c[0]&15)
	} else if c[0]&15 != 0 {
		return nil, false, false
	}
	for _, b := range c[1:] {
		nib = append(nib, b>>4, b&15)
	}
	return nib, t, true
}

// ---- trie ----

type KV struct {
	K []byte // key bytes
	V []byte
}

// Node kinds of the built structure.
type node struct {
	kind     int // 0 leaf, 1 ext, 2 branch
	key      []byte
	val      []byte
	child    *node
	children [16]*node
	enc      []byte
	path     []byte // nibble path from root
}

// Trie is the result of Build.
type Trie struct {
	Root   []byte            // 32-byte root hash
	Nodes  map[string][]byte // nibble path (one byte per nibble) -> encoded node, for the root and all hashed (>=32 byte) nodes
	Sorted []KV              // entries sorted by key
	root   *node
}

// Build constructs the trie of the given map (empty values are treated as absent).
func Build(m map[string][]byte) *Trie {
	kvs := make([]KV, 0, len(m))
	for k, v := range m {
		if len(v) == 0 {
			continue
		}
		kvs = append(kvs, KV{[]byte(k), v})
	}
	sort.Slice(kvs, func(i, j int) bool { return bytes.Compare(kvs[i].K, kvs[j].K) < 0 })
	return BuildSorted(kvs)
}

type ent struct {
	nib []byte
	val []byte
}

// BuildSorted constructs the trie from entries sorted by key.
func BuildSorted(kvs []KV) *Trie {
	t := &Trie{Nodes: map[string][]byte{}, Sorted: kvs}
	if len(kvs) == 0 {
		t.Root = EmptyRoot
		return t
	}
	es := make([]ent, len(kvs))
	for i, kv := range kvs {
		es[i] = ent{KeyToNibbles(kv.K), kv.V}
	}
	t.root = build(es, 0)
	t.encode(t.root, nil)
	t.Root = Keccak(t.root.enc)
	t.Nodes[""] = t.root.enc
	return t
}

func build(es []ent, depth int) *node {
	if len(es) == 0 {
		return nil
	}
	if len(es) == 1 {
		return &node{kind: 0, key: es[0].nib[depth:], val: es[0].val}
	}
	// common prefix beyond depth
	first, last := es[0].nib, es[len(es)-1].nib
	cp := 0
	for depth+cp < len(first) && depth+cp < len(last) && first[depth+cp] == last[depth+cp] {
		cp++
	}
	// entries are sorted so the common prefix of first and last is the common prefix of all,
	// except that a shorter key sorts first: handled because cp stops at len(first).
	if cp > 0 {
		return &node{kind: 1, key: first[depth : depth+cp], child: build(es, depth+cp)}
	}
	b := &node{kind: 2}
	i := 0
	if len(es[0].nib) == depth {
		b.val = es[0].val
		i = 1
	}
	for i < len(es) {
		nb := es[i].nib[depth]
		j := i
		for j < len(es) && es[j].nib[depth] == nb {
			j++
		}
		b.children[nb] = build(es[i:j], depth+1)
		i = j
	}
	return b
}

func (t *Trie) ref(n *node) []byte {
	if n == nil {
		return []byte{0x80}
	}
	if len(n.enc) < 32 {
		return n.enc
	}
	return refrlp.EncodeString(Keccak(n.enc))
}

func (t *Trie) encode(n *node, path []byte) {
	n.path = append([]byte{}, path...)
	switch n.kind {
	case 0:
		n.enc = refrlp.EncodeListRaw(refrlp.EncodeString(HP(n.key, true)), refrlp.EncodeString(n.val))
	case 1:
		t.encode(n.child, append(append([]byte{}, path...), n.key...))
		n.enc = refrlp.EncodeListRaw(refrlp.EncodeString(HP(n.key, false)), t.ref(n.child))
	case 2:
		items := make([][]byte, 17)
		for i := 0; i < 16; i++ {
			if c := n.children[i]; c != nil {
				t.encode(c, append(append([]byte{}, path...), byte(i)))
			}
			items[i] = t.ref(n.children[i])
		}
		items[16] = refrlp.EncodeString(n.val)
		n.enc = refrlp.EncodeListRaw(items...)
	}
	if len(n.enc) >= 32 {
		t.Nodes[string(n.path)] = n.enc
	}
}

// Get returns the value of key k or nil.
func (t *Trie) Get(k []byte) []byte {
	i := sort.Search(len(t.Sorted), func(i int) bool { return bytes.Compare(t.Sorted[i].K, k) >= 0 })
	if i < len(t.Sorted) && bytes.Equal(t.Sorted[i].K, k) {
		return t.Sorted[i].V
	}
	return nil
}

// Range returns up to n entries with key >= first and whether more entries follow.
func (t *Trie) Range(first []byte, n int) (out []KV, more bool) {
	i := sort.Search(len(t.Sorted), func(i int) bool { return bytes.Compare(t.Sorted[i].K, first) >= 0 })
	j := i + n
	if j > len(t.Sorted) {
		j = len(t.Sorted)
	}
	return t.Sorted[i:j], j < len(t.Sorted)
}

// HashedNodes returns hash -> blob for all hashed nodes and the root.
func (t *Trie) HashedNodes() map[string][]byte {
	m := make(map[string][]byte, len(t.Nodes))
	for _, b := range t.Nodes {
		m[string(Keccak(b))] = b
	}
	return m
}

// Diff returns the path-keyed changes turning node set a into b: blob for written nodes,
// nil (present key, nil value) for deleted ones; and the previous blobs (origins).
func Diff(a, b map[string][]byte) (changes map[string][]byte, origins map[string][]byte) {
	changes, origins = map[string][]byte{}, map[string][]byte{}
	for p, blob := range b {
		if old, ok := a[p]; !ok || !bytes.Equal(old, blob) {
			changes[p] = blob
			origins[p] = old
		}
	}
	for p, old := range a {
		if _, ok := b[p]; !ok {
			changes[p] = nil
			origins[p] = old
		}
	}
	return
}

// ChildRefs decodes a node blob and returns the hashes of its hashed children (the
// harness's own node decoder, used for reachability computations).
func ChildRefs(blob []byte) [][]byte {
	it, err := refrlp.Decode(blob)
	if err != nil || !it.IsList {
		return nil
	}
	var out [][]byte
	var walk func(it *refrlp.Item)
	walk = func(it *refrlp.Item) {
		switch len(it.List) {
		case 2:
			_, term, ok := UnHP(it.List[0].Str)
			if !ok || term {
				return
			}
			c := it.List[1]
			if c.IsList {
				walk(c)
			} else if len(c.Str) == 32 {
				out = append(out, c.Str)
			}
		case 17:
			for _, c := range it.List[:16] {
				if c.IsList {
					walk(c)
				} else if len(c.Str) == 32 {
					out = append(out, c.Str)
				}
			}
		}
	}
	walk(it)
	return out
}
