// Package logemit provides a tiny hand-assembled EVM contract that emits the logs described by
// its calldata (used by the chain-level harnesses C38/C40/C36 to generate blocks with a known
// log content) together with the calldata encoder and the expected-log model.
//
// Calldata is a sequence of records:
//
//	byte 0   : n   number of topics 0..4, or 0xff = REVERT the whole call (logs emitted so far vanish)
//	byte 1   : d   data length 0..255
//	32*n     : topics
//	d        : data bytes
//
// For every record the contract executes LOGn(data, topics...). Before the first record it
// increments storage slot 0 (so that every call changes state and the number of successful
// calls can be read back).
package logemit

import (
	"github.com/ethereum/go-ethereum/common"
)

// Record is one log to emit.
type Record struct {
	Topics []common.Hash
	Data   []byte
}

// Encode builds the calldata for the given records. If revert is set, a terminating revert
// record is appended: the call emits nothing and fails.
func Encode(recs []Record, revert bool) []byte {
	var out []byte
	for _, r := range recs {
		if len(r.Topics) > 4 || len(r.Data) > 255 {
			panic("logemit: record too large")
		}
		out = append(out, byte(len(r.Topics)), byte(len(r.Data)))
		for _, t := range r.Topics {
			out = append(out, t[:]...)
		}
		out = append(out, r.Data...)
	}
	if revert {
		out = append(out, 0xff, 0)
	}
	return out
}

// Gas returns a gas limit sufficient for executing the call (intrinsic gas included, with
// slack), usable as the transaction gas limit.
func Gas(recs []Record, revert bool) uint64 {
	g := uint64(21000 + 22100 + 3000)
	data := Encode(recs, revert)
	g += uint64(len(data)) * 40 // calldata, generous (also covers floor data cost: 10 per token, 4 tokens per byte)
	for _, r := range recs {
		g += 375 + 375*uint64(len(r.Topics)) + 8*uint64(len(r.Data)) + 400
	}
	return g + 5000
}

const (
	opSTOP         = 0x00
	opADD          = 0x01
	opGT           = 0x11
	opEQ           = 0x14
	opISZERO       = 0x15
	opAND          = 0x16
	opSHL          = 0x1b
	opSHR          = 0x1c
	opCALLDATALOAD = 0x35
	opCALLDATASIZE = 0x36
	opCALLDATACOPY = 0x37
	opPOP          = 0x50
	opSLOAD        = 0x54
	opSSTORE       = 0x55
	opJUMP         = 0x56
	opJUMPI        = 0x57
	opJUMPDEST     = 0x5b
	opPUSH1        = 0x60
	opPUSH2        = 0x61
	opDUP1         = 0x80
	opSWAP1        = 0x90
	opLOG0         = 0xa0
	opREVERT       = 0xfd
)

type asm struct {
	code   []byte
	labels map[string]int
	fixups map[int]string
}

func (a *asm) op(ops ...byte) { a.code = append(a.code, ops...) }
func (a *asm) push1(v byte)   { a.code = append(a.code, opPUSH1, v) }
func (a *asm) dup(n int)      { a.code = append(a.code, byte(opDUP1+n-1)) }
func (a *asm) swap(n int)     { a.code = append(a.code, byte(opSWAP1+n-1)) }
func (a *asm) label(n string) { a.labels[n] = len(a.code); a.code = append(a.code, opJUMPDEST) }
func (a *asm) pushL(n string) { a.code = append(a.code, opPUSH2, 0, 0); a.fixups[len(a.code)-2] = n }
func (a *asm) jump(n string)  { a.pushL(n); a.op(opJUMP) }
func (a *asm) jumpi(n string) { a.pushL(n); a.op(opJUMPI) }
func (a *asm) finish() []byte {
	for pos, n := range a.fixups {
		t, ok := a.labels[n]
		if !ok {
			panic("logemit: undefined label " + n)
		}
		a.code[pos] = byte(t >> 8)
		a.code[pos+1] = byte(t)
	}
	return a.code
}

// Code returns the runtime bytecode of the log emitter (legacy EVM, needs SHR/SHL: Constantinople+).
func Code() []byte {
	a := &asm{labels: map[string]int{}, fixups: map[int]string{}}
	// slot0++
	a.push1(0)
	a.op(opSLOAD)
	a.push1(1)
	a.op(opADD)
	a.push1(0)
	a.op(opSSTORE)
	a.push1(0) // ptr
	a.label("loop")
	// exit if !(calldatasize > ptr)
	a.dup(1)
	a.op(opCALLDATASIZE, opGT, opISZERO)
	a.jumpi("exit")
	a.dup(1)
	a.op(opCALLDATALOAD) // [ptr, w]
	a.dup(1)
	a.push1(248)
	a.op(opSHR) // [ptr, w, n]
	a.swap(1)   // [ptr, n, w]
	a.push1(240)
	a.op(opSHR)
	a.push1(0xff)
	a.op(opAND) // [ptr, n, dlen]
	// revert record?
	a.dup(2)
	a.push1(0xff)
	a.op(opEQ)
	a.jumpi("revert")
	// calldatacopy(0, ptr+2+32n, dlen)
	a.dup(1) // [ptr,n,dlen,dlen]
	a.dup(3)
	a.push1(5)
	a.op(opSHL) // n*32
	a.dup(5)
	a.op(opADD)
	a.push1(2)
	a.op(opADD) // [ptr,n,dlen,dlen,off]
	a.push1(0)
	a.op(opCALLDATACOPY) // [ptr,n,dlen]
	// newptr = dlen + 32n + ptr + 2
	a.dup(1)
	a.dup(3)
	a.push1(5)
	a.op(opSHL)
	a.op(opADD)
	a.dup(4)
	a.op(opADD)
	a.push1(2)
	a.op(opADD) // [ptr,n,dlen,newptr]
	a.swap(3)   // [newptr,n,dlen,ptr]
	for k := 1; k <= 4; k++ {
		a.dup(3)
		a.push1(byte(k))
		a.op(opEQ)
		a.jumpi([]string{"", "L1", "L2", "L3", "L4"}[k])
	}
	// n == 0 (or any other value): LOG0
	emit := func(k int) {
		// stack [newptr,n,dlen,ptr]; push topic_k .. topic_1
		for i := k; i >= 1; i-- {
			a.dup(1 + (k - i)) // ptr
			a.push1(byte(2 + 32*(i-1)))
			a.op(opADD, opCALLDATALOAD)
		}
		a.dup(k + 2) // dlen
		a.push1(0)   // offset
		a.op(byte(opLOG0 + k))
		a.op(opPOP, opPOP, opPOP) // [newptr]
		a.jump("loop")
	}
	emit(0)
	for k := 1; k <= 4; k++ {
		a.label([]string{"", "L1", "L2", "L3", "L4"}[k])
		emit(k)
	}
	a.label("revert")
	a.push1(0)
	a.push1(0)
	a.op(opREVERT)
	a.label("exit")
	a.op(opSTOP)
	return a.finish()
}
