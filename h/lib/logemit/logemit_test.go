package logemit

import (
	"bytes"
	"math/rand"
	"testing"

	"github.com/ethereum/go-ethereum/common"
	"github.com/ethereum/go-ethereum/core/rawdb"
	"github.com/ethereum/go-ethereum/core/state"
	"github.com/ethereum/go-ethereum/core/vm/runtime"
	"github.com/ethereum/go-ethereum/params"
)

func TestEmit(t *testing.T) {
	rng := rand.New(rand.NewSource(1))
	for iter := 0; iter < 300; iter++ {
		var recs []Record
		for i := rng.Intn(6); i > 0; i-- {
			r := Record{}
			for j := rng.Intn(5); j > 0; j-- {
				var h common.Hash
				rng.Read(h[:])
				r.Topics = append(r.Topics, h)
			}
			r.Data = make([]byte, rng.Intn(100))
			rng.Read(r.Data)
			recs = append(recs, r)
		}
		revert := rng.Intn(5) == 0
		statedb, _ := state.New(common.Hash{}, state.NewDatabaseForTesting())
		addr := common.HexToAddress("0xc0de")
		statedb.SetCode(addr, Code(), 0)
		cfg := &runtime.Config{ChainConfig: params.MergedTestChainConfig, State: statedb, GasLimit: Gas(recs, revert) - 21000, BlockNumber: common.Big1}
		_, _, err := runtime.Call(addr, Encode(recs, revert), cfg)
		if revert {
			if err == nil {
				t.Fatalf("expected revert")
			}
			continue
		}
		if err != nil {
			t.Fatalf("iter %d: %v", iter, err)
		}
		logs := statedb.Logs()
		if len(logs) != len(recs) {
			t.Fatalf("iter %d: %d logs want %d", iter, len(logs), len(recs))
		}
		for i, l := range logs {
			if len(l.Topics) != len(recs[i].Topics) || !bytes.Equal(l.Data, recs[i].Data) {
				t.Fatalf("iter %d log %d mismatch", iter, i)
			}
			for j := range l.Topics {
				if l.Topics[j] != recs[i].Topics[j] {
					t.Fatalf("topic mismatch")
				}
			}
		}
		if statedb.GetState(addr, common.Hash{}) != common.BigToHash(common.Big1) {
			t.Fatalf("counter")
		}
	}
	_ = rawdb.HashScheme
}
