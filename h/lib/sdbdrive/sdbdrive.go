// Package sdbdrive drives a go-ethereum core/state.StateDB and the reference account model
// (lib/acctmodel) in lock-step through histories of operations and compares every observable.
//
// The operation alphabet consists of the call patterns the EVM / state transition issue
// (DESIGN.md section 7: the StateDB API has preconditions the interpreter guarantees; violating
// them is outside the properties). Every precondition is decided on the MODEL, never on the
// StateDB, and an op whose precondition does not hold is skipped (this also makes arbitrary
// sub-sequences of a history executable, which the delta-debugging minimiser relies on).
//
// Preconditions enforced (each one mirrors an interpreter guarantee):
//   - value senders (xfer/sub/create caller) exist, are non-empty and have sufficient balance
//     (CanTransfer; an EOA sender has nonce>=1, a contract has code or nonce 1);
//   - SSTORE / SELFDESTRUCT act on the executing contract: an existing account that has code or
//     is under construction in this transaction;
//   - contract creation happens only at addresses with nonce 0, no code, no storage and not
//     marked self-destructed (address collision rule incl. EIP-7610; an address cannot be
//     re-derived within one transaction);
//   - SetCode outside creation is the EIP-7702 pattern: code is read first, the old code is
//     empty or a delegation designator, Prague and later only;
//   - precompile addresses (0x03, 0x04) only ever receive value / get touched / are read;
//   - a non-zero amount is not sent to an empty RIPEMD (0x03) inside a revertible frame (the
//     model follows the specification's "0x03 stays touched across a revert", go-ethereum keeps
//     only the zero-value touch; both agree outside that corner, which cannot occur on mainnet);
//   - refunds never go below zero; access-list ops from Berlin, transient storage from Cancun;
//   - no reads between the end of a transaction and the next Prepare for transaction-scoped
//     data (transient storage, warm sets).
package sdbdrive

import (
	"bytes"
	"encoding/binary"
	"fmt"
	"math/big"
	"math/rand"

	"github.com/ethereum/go-ethereum/common"
	"github.com/ethereum/go-ethereum/core/state"
	"github.com/ethereum/go-ethereum/core/tracing"
	"github.com/ethereum/go-ethereum/core/types"
	"github.com/ethereum/go-ethereum/core/types/bal"
	"github.com/ethereum/go-ethereum/params"
	"github.com/holiman/uint256"

	am "verif/lib/acctmodel"
	"verif/lib/refmpt"
)

// Fork is one rule set.
type Fork struct {
	Name      string
	R         params.Rules
	M         am.Rules
	PerTxRoot bool // before Byzantium receipts carry the intermediate root: IntermediateRoot after every tx
}

func mkForks() []Fork {
	var fs []Fork
	r := params.Rules{}
	fs = append(fs, Fork{"Frontier", r, am.Rules{}, true})
	r.IsHomestead, r.IsEIP150, r.IsEIP155, r.IsEIP158 = true, true, true, true
	fs = append(fs, Fork{"SpuriousDragon", r, am.Rules{EIP158: true}, true})
	r.IsByzantium = true
	fs = append(fs, Fork{"Byzantium", r, am.Rules{EIP158: true}, false})
	r.IsConstantinople, r.IsPetersburg, r.IsIstanbul, r.IsBerlin, r.IsEIP2929 = true, true, true, true, true
	fs = append(fs, Fork{"Berlin", r, am.Rules{EIP158: true, Berlin: true}, false})
	r.IsLondon = true
	fs = append(fs, Fork{"London", r, am.Rules{EIP158: true, Berlin: true}, false})
	r.IsMerge, r.IsShanghai = true, true
	fs = append(fs, Fork{"Shanghai", r, am.Rules{EIP158: true, Berlin: true, Shanghai: true}, false})
	r.IsCancun = true
	fs = append(fs, Fork{"Cancun", r, am.Rules{EIP158: true, Berlin: true, Shanghai: true, Cancun: true}, false})
	r.IsPrague = true
	fs = append(fs, Fork{"Prague", r, am.Rules{EIP158: true, Berlin: true, Shanghai: true, Cancun: true}, false})
	r.IsOsaka = true
	fs = append(fs, Fork{"Osaka", r, am.Rules{EIP158: true, Berlin: true, Shanghai: true, Cancun: true}, false})
	r.IsAmsterdam = true
	fs = append(fs, Fork{"Amsterdam", r, am.Rules{EIP158: true, Berlin: true, Shanghai: true, Cancun: true, Amsterdam: true}, false})
	return fs
}

// Forks lists the rule sets, oldest first.
var Forks = mkForks()

// ForkByName looks a fork up.
func ForkByName(n string) Fork {
	for _, f := range Forks {
		if f.Name == n {
			return f
		}
	}
	panic("unknown fork " + n)
}

// ---- universe ----

// Addrs is the address universe: indices 0..NReg-1 are regular, the last two are precompiles.
var Addrs = []common.Address{
	common.HexToAddress("0xa100000000000000000000000000000000000001"),
	common.HexToAddress("0xa200000000000000000000000000000000000002"),
	common.HexToAddress("0x0b00000000000000000000000000000000000b03"),
	common.HexToAddress("0xc400000000000000000000000000000000000004"),
	common.HexToAddress("0x00000000000000000000000000000000000d5005"),
	common.HexToAddress("0xe6e6e6e6e6e6e6e6e6e6e6e6e6e6e6e6e6e6e6e6"),
	common.HexToAddress("0x0000000000000000000000000000000000000003"), // RIPEMD160
	common.HexToAddress("0x0000000000000000000000000000000000000004"), // identity
}

const (
	NReg    = 6
	IdxRipe = 6
	NAddr   = 8
)

var Coinbase = common.HexToAddress("0xc0ffee0000000000000000000000000000000000")

// Slots is the slot universe.
var Slots = []common.Hash{
	{},
	common.BigToHash(big.NewInt(1)),
	common.HexToHash("0xffffffffffffffffffffffffffffffffffffffffffffffffffffffffffffffff"),
	common.HexToHash("0x290decd9548b62a8d60345a988386fc84ba6bc95484008f6362f93160ef3e563"),
}

// Vals is the slot value universe (index 0 is zero = deletion).
var Vals = []common.Hash{
	{},
	common.BigToHash(big.NewInt(1)),
	common.BigToHash(big.NewInt(2)),
	common.HexToHash("0x8000000000000000000000000000000000000000000000000000000000000001"),
	common.HexToHash("0x0000000000000000000000000000000000000000000000000000ffffffffff00"),
}

// Codes is the code universe; index 0 is empty. Entries >= FirstDeleg are EIP-7702 delegation designators.
var Codes = [][]byte{
	nil,
	{0x00},
	{0x60, 0x00, 0x60, 0x00, 0xf3},
	bytes.Repeat([]byte{0x5b}, 70),
	append([]byte{0xef, 0x01, 0x00}, Addrs[0][:]...),
	append([]byte{0xef, 0x01, 0x00}, Addrs[3][:]...),
}

const FirstDeleg = 4

func isDeleg(code []byte) bool {
	return len(code) == 23 && bytes.HasPrefix(code, []byte{0xef, 0x01, 0x00})
}

// Amounts is the amount universe (index into it is stored in ops).
var Amounts = []*big.Int{
	big.NewInt(0), big.NewInt(1), big.NewInt(2), big.NewInt(7), big.NewInt(1000),
	new(big.Int).Lsh(big.NewInt(1), 64), new(big.Int).Lsh(big.NewInt(3), 130),
}

func MA(a common.Address) am.Address { return am.Address(a) }
func MH(h common.Hash) am.Hash       { return am.Hash(h) }

func u256(b *big.Int) *uint256.Int { return uint256.MustFromBig(b) }

// ---- operations ----

// Op is one history step. Meaning of the fields depends on K.
type Op struct {
	K  string `json:"k"`
	A  int    `json:"a,omitempty"`  // address index
	B  int    `json:"b,omitempty"`  // second address index (-1 = none)
	S  int    `json:"s,omitempty"`  // slot index
	V  int    `json:"v,omitempty"`  // value / amount / code index or flag
	N  uint64 `json:"n,omitempty"`  // number (refund amount, topics count)
	AL []int  `json:"al,omitempty"` // begin: access list entries, addr*16+slot+1 (slot+1==0 -> address only)
}

func (o Op) String() string {
	return fmt.Sprintf("%s(a=%d b=%d s=%d v=%d n=%d)", o.K, o.A, o.B, o.S, o.V, o.N)
}

// Failure is the first divergence of a history.
type Failure struct {
	FP  string `json:"fingerprint"`
	Msg string `json:"msg"`
	At  int    `json:"op_index"`
}

type frm struct {
	sid, mid int
	create   bool
	addr     int
}

// TxRefs records what the operations of the current transaction referenced (C15).
type TxRefs struct {
	Any   map[common.Address]bool                 // passed to any StateDB method
	State map[common.Address]bool                 // passed to a method that accesses account state
	Slots map[common.Address]map[common.Hash]bool // slot read/written while the account existed
}

func newRefs() *TxRefs {
	return &TxRefs{Any: map[common.Address]bool{}, State: map[common.Address]bool{}, Slots: map[common.Address]map[common.Hash]bool{}}
}

// Pair is a StateDB and its model, executed in lock-step.
type Pair struct {
	F       Fork
	S       *state.StateDB
	M       *am.State
	Block   uint64
	Err     *Failure
	Stats   map[string]int
	Refs    *TxRefs
	LastBAL *bal.ConstructionBlockAccessList // result of the last Finalise (Amsterdam)
	// OnTxEnd, if set, is called after EndTx on both sides with the pre-transaction model accounts.
	OnTxEnd func(p *Pair, pre map[am.Address]*am.Account, index uint32, refs *TxRefs, list *bal.ConstructionBlockAccessList)

	frames   []frm
	inTx     bool
	txn      int
	balIndex uint32
	maxDepth int
	opIdx    int
	// shape flags for signatures
	DeletedInBlock map[int]int // address index -> 1 deleted in this block, 2 deleted and had storage
	DeletedEver    map[int]bool
	Resurrected    map[string]bool
	RevertedCreate bool
	DestructKinds  map[string]bool
	Reverts        int
}

// NewPair wraps a state and a model that are already in agreement.
func NewPair(f Fork, s *state.StateDB, m *am.State) *Pair {
	return &Pair{F: f, S: s, M: m, Stats: map[string]int{}, Refs: newRefs(), DestructKinds: map[string]bool{},
		DeletedInBlock: map[int]int{}, DeletedEver: map[int]bool{}, Resurrected: map[string]bool{}}
}

// CopyPair copies both sides (StateDB.Copy / model deep copy). Open frames are dropped in the
// copy: "Snapshots of the copied state cannot be applied to the copy".
func (p *Pair) CopyPair() *Pair {
	c := &Pair{F: p.F, S: p.S.Copy(), M: p.M.Copy(), Block: p.Block, Stats: map[string]int{}, Refs: newRefs(),
		inTx: p.inTx, txn: p.txn, balIndex: p.balIndex, DestructKinds: map[string]bool{},
		DeletedInBlock: map[int]int{}, DeletedEver: map[int]bool{}, Resurrected: map[string]bool{}}
	for k, v := range p.DeletedInBlock {
		c.DeletedInBlock[k] = v
	}
	for k, v := range p.DeletedEver {
		c.DeletedEver[k] = v
	}
	for a := range p.Refs.Any {
		c.Refs.Any[a] = true
	}
	for a := range p.Refs.State {
		c.Refs.State[a] = true
	}
	for a, m := range p.Refs.Slots {
		c.Refs.Slots[a] = map[common.Hash]bool{}
		for k := range m {
			c.Refs.Slots[a][k] = true
		}
	}
	return c
}

// NextBlock continues the history on a new StateDB opened at the committed root.
func (p *Pair) NextBlock(s *state.StateDB) {
	p.S = s
	p.Block++
	p.txn = 0
	p.inTx = false
	p.frames = nil
	p.DeletedInBlock = map[int]int{}
	p.M.BeginBlock()
	p.M.ResetTxStart()
}

// Reward credits the coinbase outside any transaction (block reward / fee sink) so that
// every block changes the state; amount distinguishes sibling blocks.
func (p *Pair) Reward(amount int64) {
	amt := big.NewInt(amount)
	p.S.AddBalance(Coinbase, u256(amt), tracing.BalanceIncreaseRewardMineBlock)
	p.M.AddBalance(MA(Coinbase), amt)
	p.M.EndTx()
}

func (p *Pair) InTx() bool    { return p.inTx }
func (p *Pair) Depth() int    { return len(p.frames) }
func (p *Pair) MaxDepth() int { return p.maxDepth }
func (p *Pair) TxCount() int  { return p.txn }

func (p *Pair) fail(fp, format string, a ...any) {
	if p.Err == nil {
		p.Err = &Failure{FP: fp, Msg: fmt.Sprintf(format, a...), At: p.opIdx}
	}
}

func (p *Pair) refAny(a common.Address) { p.Refs.Any[a] = true }
func (p *Pair) refState(a common.Address) {
	p.Refs.Any[a] = true
	p.Refs.State[a] = true
}
func (p *Pair) refSlot(a common.Address, k common.Hash) {
	p.refState(a)
	if p.M.Exist(MA(a)) {
		if p.Refs.Slots[a] == nil {
			p.Refs.Slots[a] = map[common.Hash]bool{}
		}
		p.Refs.Slots[a][k] = true
	}
}

// ---- compared reads ----

func (p *Pair) cmpBig(fp string, a common.Address, got *uint256.Int, want *big.Int) {
	p.Stats["reads"]++
	if got.ToBig().Cmp(want) != 0 {
		p.fail("read:"+fp, "%s(%x) = %v, model %v", fp, a, got, want)
	}
}

// CheckAccount compares all account-level getters for address index i.
func (p *Pair) CheckAccount(i int) {
	a, ma := Addrs[i], MA(Addrs[i])
	p.refState(a)
	s, m := p.S, p.M
	p.Stats["reads"] += 9
	if g, w := s.Exist(a), m.Exist(ma); g != w {
		p.fail("read:Exist", "Exist(%x) = %v, model %v", a, g, w)
	}
	if g, w := s.Empty(a), m.Empty(ma); g != w {
		p.fail("read:Empty", "Empty(%x) = %v, model %v", a, g, w)
	}
	p.cmpBig("GetBalance", a, s.GetBalance(a), m.Balance(ma))
	if g, w := s.GetNonce(a), m.Nonce(ma); g != w {
		p.fail("read:GetNonce", "GetNonce(%x) = %d, model %d", a, g, w)
	}
	if g, w := s.GetCodeHash(a), common.Hash(m.CodeHash(ma)); g != w {
		p.fail("read:GetCodeHash", "GetCodeHash(%x) = %x, model %x", a, g, w)
	}
	if g, w := s.GetCodeSize(a), len(m.Code(ma)); g != w {
		p.fail("read:GetCodeSize", "GetCodeSize(%x) = %d, model %d", a, g, w)
	}
	if g, w := s.GetCode(a), m.Code(ma); !bytes.Equal(g, w) {
		p.fail("read:GetCode", "GetCode(%x) = %x, model %x", a, g, w)
	}
	if g, w := s.HasSelfDestructed(a), m.HasSelfDestructed(ma); g != w {
		p.fail("read:HasSelfDestructed", "HasSelfDestructed(%x) = %v, model %v", a, g, w)
	}
	// IsNewContract is only meaningful where contract creation bumps the nonce (EIP-158 on):
	// before that a creation on a pre-funded address with zero value leaves no tracked mutation,
	// and the interpreter never reads the flag before Cancun anyway.
	if p.F.R.IsEIP158 {
		if g, w := s.IsNewContract(a), m.IsNewContract(ma); g != w {
			p.fail("read:IsNewContract", "IsNewContract(%x) = %v, model %v", a, g, w)
		}
	}
	if g, w := s.GetStorageRoot(a), common.Hash(m.StorageRootSeen(ma)); g != w {
		p.fail("read:GetStorageRoot", "GetStorageRoot(%x) = %x, model %x", a, g, w)
	}
	if p.inTx {
		p.Stats["reads"]++
		if g, w := s.AddressInAccessList(a), m.AddrWarm(ma); g != w {
			p.fail("read:AddressInAccessList", "AddressInAccessList(%x) = %v, model %v", a, g, w)
		}
	}
}

// CheckSlot compares all slot-level getters.
func (p *Pair) CheckSlot(i, si int) {
	a, ma, k, mk := Addrs[i], MA(Addrs[i]), Slots[si], MH(Slots[si])
	p.refSlot(a, k)
	s, m := p.S, p.M
	p.Stats["reads"] += 3
	if g, w := s.GetState(a, k), common.Hash(m.Storage(ma, mk)); g != w {
		p.fail("read:GetState", "GetState(%x,%x) = %x, model %x", a, k, g, w)
	}
	if g, w := s.GetCommittedState(a, k), common.Hash(m.Committed(ma, mk)); g != w {
		p.fail("read:GetCommittedState", "GetCommittedState(%x,%x) = %x, model %x", a, k, g, w)
	}
	g1, g2 := s.GetStateAndCommittedState(a, k)
	if w1, w2 := common.Hash(m.Storage(ma, mk)), common.Hash(m.Committed(ma, mk)); g1 != w1 || g2 != w2 {
		p.fail("read:GetStateAndCommittedState", "GetStateAndCommittedState(%x,%x) = %x,%x, model %x,%x", a, k, g1, g2, w1, w2)
	}
	if p.inTx {
		p.Stats["reads"] += 2
		if g, w := s.GetTransientState(a, k), common.Hash(m.TransientGet(ma, mk)); g != w {
			p.fail("read:GetTransientState", "GetTransientState(%x,%x) = %x, model %x", a, k, g, w)
		}
		ga, gs := s.SlotInAccessList(a, k)
		if wa, ws := m.SlotWarm(ma, mk); ga != wa || gs != ws {
			p.fail("read:SlotInAccessList", "SlotInAccessList(%x,%x) = %v,%v, model %v,%v", a, k, ga, gs, wa, ws)
		}
	}
}

// CheckGlobals compares refund counter, tx index and the block's logs.
func (p *Pair) CheckGlobals() {
	p.Stats["reads"] += 2
	if p.inTx {
		if g, w := p.S.GetRefund(), p.M.Refund; g != w {
			p.fail("read:GetRefund", "GetRefund = %d, model %d", g, w)
		}
	}
	logs := p.S.Logs()
	if len(logs) != len(p.M.Logs) {
		p.fail("read:Logs", "len(Logs()) = %d, model %d", len(logs), len(p.M.Logs))
		return
	}
	for i, l := range logs {
		w := p.M.Logs[i]
		ok := l.Address == common.Address(w.Address) && bytes.Equal(l.Data, w.Data) && l.TxHash == common.Hash(w.TxHash) &&
			l.TxIndex == uint(w.TxIndex) && l.Index == w.Index && len(l.Topics) == len(w.Topics)
		if ok {
			for j := range l.Topics {
				ok = ok && l.Topics[j] == common.Hash(w.Topics[j])
			}
		}
		if !ok {
			p.fail("read:Logs", "Logs()[%d] = %+v, model %+v", i, *l, w)
			return
		}
	}
}

// CheckState compares every account-level and slot-level observable.
func (p *Pair) CheckState() {
	for i := range Addrs {
		p.CheckAccount(i)
		for si := range Slots {
			p.CheckSlot(i, si)
		}
	}
}

// CheckAll compares everything observable (state, refund counter, logs).
func (p *Pair) CheckAll() {
	p.CheckState()
	p.CheckGlobals()
}

// ---- preconditions (decided on the model) ----

func (p *Pair) executing(i int) bool {
	if i >= NReg {
		return false
	}
	acc := p.M.Accounts[MA(Addrs[i])]
	return acc != nil && (len(acc.Code) > 0 || acc.NewContract)
}

func (p *Pair) canSend(i int, amt *big.Int) bool {
	if i >= NReg {
		return false
	}
	acc := p.M.Accounts[MA(Addrs[i])]
	return acc != nil && !acc.Empty() && acc.Balance.Cmp(amt) >= 0
}

func (p *Pair) canReceive(i int, amt *big.Int) bool {
	if i == IdxRipe && amt.Sign() > 0 && len(p.frames) > 0 && p.M.Empty(am.RIPEMD) {
		return false
	}
	return true
}

// ---- primitive calls applied to both sides ----

func (p *Pair) addBalance(i int, amt *big.Int) {
	a := Addrs[i]
	p.refState(a)
	want := p.M.Balance(MA(a))
	prev := p.S.AddBalance(a, u256(amt), tracing.BalanceChangeUnspecified)
	p.M.AddBalance(MA(a), amt)
	p.cmpBig("AddBalance.prev", a, &prev, want)
	p.Stats["op.AddBalance"]++
	if amt.Sign() == 0 {
		p.Stats["op.AddBalance.zero"]++
	}
}

func (p *Pair) subBalance(i int, amt *big.Int) {
	a := Addrs[i]
	p.refState(a)
	want := p.M.Balance(MA(a))
	prev := p.S.SubBalance(a, u256(amt), tracing.BalanceChangeUnspecified)
	p.M.SubBalance(MA(a), amt)
	p.cmpBig("SubBalance.prev", a, &prev, want)
	p.Stats["op.SubBalance"]++
}

func (p *Pair) setNonce(i int, n uint64) {
	a := Addrs[i]
	p.refState(a)
	p.S.SetNonce(a, n, tracing.NonceChangeUnspecified)
	p.M.SetNonce(MA(a), n)
	p.Stats["op.SetNonce"]++
}

func (p *Pair) setCode(i int, code []byte) {
	a := Addrs[i]
	p.refState(a)
	want := p.M.Code(MA(a))
	prev := p.S.SetCode(a, append([]byte(nil), code...), tracing.CodeChangeUnspecified)
	p.M.SetCode(MA(a), code)
	p.Stats["reads"]++
	if !bytes.Equal(prev, want) {
		p.fail("read:SetCode.prev", "SetCode(%x) returned previous code %x, model %x", a, prev, want)
	}
	p.Stats["op.SetCode"]++
}

func (p *Pair) snapshot() (int, int) {
	p.Stats["op.Snapshot"]++
	return p.S.Snapshot(), p.M.Snapshot()
}

// ---- Exec ----

// Exec applies one op to both sides; it reports whether the op was applicable.
func (p *Pair) Exec(op Op) bool {
	if p.Err != nil {
		return false
	}
	ok := p.exec(op)
	p.opIdx++
	return ok
}

func (p *Pair) exec(op Op) bool {
	s, m := p.S, p.M
	ai := op.A
	if ai < 0 || ai >= NAddr || op.B >= NAddr || op.S < 0 || op.S >= len(Slots) || op.V < 0 {
		return false
	}
	a, ma := Addrs[ai], MA(Addrs[ai])
	switch op.K {
	case "begin":
		if p.inTx {
			return false
		}
		p.beginTx(op)
	case "end":
		if !p.inTx {
			return false
		}
		p.endTx(op.V == 1)
	case "iroot": // IntermediateRoot between transactions
		if p.inTx {
			return false
		}
		p.CheckRoot()
	case "rd":
		p.CheckAccount(ai)
	case "rds":
		p.CheckSlot(ai, op.S)
	case "rdg":
		p.CheckGlobals()
	case "rdall":
		p.CheckAll()
	default:
		if !p.inTx {
			return false
		}
		switch op.K {
		case "add":
			amt := Amounts[op.V%len(Amounts)]
			if !p.canReceive(ai, amt) {
				return false
			}
			p.addBalance(ai, amt)
		case "sub":
			amt := Amounts[op.V%len(Amounts)]
			if !p.canSend(ai, amt) {
				return false
			}
			p.subBalance(ai, amt)
		case "xfer":
			amt := Amounts[op.V%len(Amounts)]
			if op.B < 0 || !p.canSend(ai, amt) || !p.canReceive(op.B, amt) {
				return false
			}
			p.subBalance(ai, amt)
			p.addBalance(op.B, amt)
		case "nonce":
			if ai >= NReg {
				return false
			}
			p.setNonce(ai, m.Nonce(ma)+1)
		case "deleg":
			code := Codes[op.V%len(Codes)]
			if ai >= NReg || !p.F.R.IsPrague || (len(code) > 0 && !isDeleg(code)) {
				return false
			}
			if old := m.Code(ma); len(old) > 0 && !isDeleg(old) {
				return false
			}
			p.CheckAccount(ai) // the interpreter reads the authority's code and nonce first
			p.setNonce(ai, m.Nonce(ma)+1)
			p.setCode(ai, code)
			p.Stats["op.delegate"]++
		case "sstore":
			if !p.executing(ai) {
				return false
			}
			k, v := Slots[op.S], Vals[op.V%len(Vals)]
			p.refSlot(a, k)
			want := common.Hash(m.Storage(ma, MH(k)))
			orig := common.Hash(m.Committed(ma, MH(k)))
			prev := s.SetState(a, k, v)
			m.SetStorage(ma, MH(k), MH(v))
			p.Stats["reads"]++
			if prev != want {
				p.fail("read:SetState.prev", "SetState(%x,%x) returned previous %x, model %x", a, k, prev, want)
			}
			p.Stats["op.SetState"]++
			switch {
			case v == want:
				p.Stats["op.SetState.same"]++
			case v == orig:
				p.Stats["op.SetState.restore"]++
			}
		case "tstore":
			if !p.F.R.IsCancun || ai >= NReg {
				return false
			}
			p.refAny(a)
			s.SetTransientState(a, Slots[op.S], Vals[op.V%len(Vals)])
			m.TransientSet(ma, MH(Slots[op.S]), MH(Vals[op.V%len(Vals)]))
			p.Stats["op.SetTransientState"]++
		case "warmA":
			if !p.F.R.IsBerlin {
				return false
			}
			p.refAny(a)
			s.AddAddressToAccessList(a)
			m.WarmAddress(ma)
			p.Stats["op.AccessListAddr"]++
		case "warmS":
			if !p.F.R.IsBerlin {
				return false
			}
			p.refAny(a)
			s.AddSlotToAccessList(a, Slots[op.S])
			m.WarmSlotAdd(ma, MH(Slots[op.S]))
			p.Stats["op.AccessListSlot"]++
		case "refund+":
			s.AddRefund(op.N)
			m.AddRefund(op.N)
			p.Stats["op.AddRefund"]++
		case "refund-":
			if op.N > m.Refund {
				return false
			}
			s.SubRefund(op.N)
			m.SubRefund(op.N)
			p.Stats["op.SubRefund"]++
		case "log":
			nt := int(op.N % 5)
			topics := make([]common.Hash, nt)
			mt := make([]am.Hash, nt)
			for j := range topics {
				topics[j] = Slots[(op.S+j)%len(Slots)]
				mt[j] = MH(topics[j])
			}
			data := Codes[op.V%len(Codes)]
			s.AddLog(&types.Log{Address: a, Topics: topics, Data: append([]byte(nil), data...)})
			m.AddLog(ma, mt, data)
			p.Stats["op.AddLog"]++
		case "call":
			if len(p.frames) >= 8 {
				return false
			}
			sid, mid := p.snapshot()
			p.frames = append(p.frames, frm{sid: sid, mid: mid})
		case "create":
			return p.create(op)
		case "ret":
			if len(p.frames) == 0 {
				return false
			}
			f := p.frames[len(p.frames)-1]
			p.frames = p.frames[:len(p.frames)-1]
			if op.V == 0 {
				s.RevertToSnapshot(f.sid)
				m.Revert(f.mid)
				p.Stats["op.Revert"]++
				p.Reverts++
				if f.create {
					p.RevertedCreate = true
					p.Stats["op.Revert.create"]++
				}
			} else if f.create {
				if code := Codes[op.V%len(Codes)]; len(code) > 0 && !isDeleg(code) {
					p.setCode(f.addr, code)
				}
				p.Stats["op.create.ok"]++
			}
		case "retto": // revert to an outer frame directly (nested frames unwound by one journal revert)
			if len(p.frames) == 0 {
				return false
			}
			j := op.V % len(p.frames)
			f := p.frames[j]
			for _, g := range p.frames[j:] {
				if g.create {
					p.RevertedCreate = true
				}
			}
			p.frames = p.frames[:j]
			s.RevertToSnapshot(f.sid)
			m.Revert(f.mid)
			p.Stats["op.Revert"]++
			p.Stats["op.Revert.outer"]++
			p.Reverts++
		case "sd":
			return p.selfdestruct(op)
		default:
			return false
		}
	}
	if d := len(p.frames); d > p.maxDepth {
		p.maxDepth = d
	}
	return true
}

func txHash(block uint64, idx int) common.Hash {
	var b [16]byte
	binary.BigEndian.PutUint64(b[:8], block)
	binary.BigEndian.PutUint64(b[8:], uint64(idx))
	return common.BytesToHash(refmpt.Keccak([]byte("verif-tx"), b[:]))
}

func (p *Pair) beginTx(op Op) {
	sender := Addrs[op.A%NReg]
	var dst *common.Address
	var mdst *am.Address
	if op.B >= 0 {
		dst = &Addrs[op.B]
		x := MA(Addrs[op.B])
		mdst = &x
	}
	var list types.AccessList
	var alAddrs []am.Address
	alSlots := map[am.Address][]am.Hash{}
	for _, e := range op.AL {
		ai, sl := (e/16)%NAddr, e%16
		t := types.AccessTuple{Address: Addrs[ai]}
		alAddrs = append(alAddrs, MA(Addrs[ai]))
		if sl > 0 {
			k := Slots[(sl-1)%len(Slots)]
			t.StorageKeys = []common.Hash{k}
			alSlots[MA(Addrs[ai])] = append(alSlots[MA(Addrs[ai])], MH(k))
		}
		list = append(list, t)
	}
	th := txHash(p.Block, p.txn)
	pre := []common.Address{Addrs[IdxRipe], Addrs[IdxRipe+1]}
	p.balIndex = uint32(p.txn + 1)
	p.S.SetTxContext(th, p.txn, p.balIndex)
	p.S.Prepare(p.F.R, sender, Coinbase, dst, pre, list)
	p.M.BeginTx(MH(th), p.txn, MA(sender), MA(Coinbase), mdst, []am.Address{MA(pre[0]), MA(pre[1])}, alAddrs, alSlots)
	p.inTx = true
	p.frames = nil
	p.Refs = newRefs()
	p.Stats["op.BeginTx"]++
}

func (p *Pair) endTx(iroot bool) {
	pre := p.M.TxStart
	p.frames = nil
	p.inTx = false
	p.M.EndTx()
	p.LastBAL = nil
	if p.F.PerTxRoot || iroot {
		// IntermediateRoot finalises itself (its BAL result is not returned to the caller, so
		// Amsterdam histories that need the list use plain Finalise).
		if p.OnTxEnd != nil && p.F.R.IsAmsterdam {
			p.LastBAL = p.S.Finalise(p.F.R)
			p.Stats["op.Finalise"]++
		}
		p.CheckRoot()
	} else {
		p.LastBAL = p.S.Finalise(p.F.R)
		p.Stats["op.Finalise"]++
	}
	p.Stats["op.EndTx"]++
	for i := 0; i < NReg; i++ {
		if was := pre[MA(Addrs[i])]; was != nil && !p.M.Exist(MA(Addrs[i])) {
			p.DeletedInBlock[i] = 1
			if len(was.Storage) > 0 {
				p.DeletedInBlock[i] = 2
			}
			p.DeletedEver[i] = true
			p.Stats["acct.deleted"]++
		}
	}
	if p.OnTxEnd != nil {
		p.OnTxEnd(p, pre, p.balIndex, p.Refs, p.LastBAL)
	}
	p.txn++
	p.Refs = newRefs()
}

// CheckRoot compares IntermediateRoot with the model root (between transactions).
func (p *Pair) CheckRoot() common.Hash {
	got := p.S.IntermediateRoot(p.F.R)
	want := common.Hash(p.M.Root())
	p.Stats["roots"]++
	if got != want {
		p.fail("root:IntermediateRoot", "IntermediateRoot = %x, model root %x", got, want)
	}
	if err := p.S.Error(); err != nil {
		p.fail("dberr", "StateDB.Error() = %v", err)
	}
	return got
}

// create mirrors vm.EVM.create up to the point where init code starts running.
func (p *Pair) create(op Op) bool {
	s, m := p.S, p.M
	ci, ti := op.A, op.B
	amt := Amounts[op.V%len(Amounts)]
	if ti < 0 || ti >= NReg || ci == ti || len(p.frames) >= 8 || !p.canSend(ci, amt) {
		return false
	}
	t, mt := Addrs[ti], MA(Addrs[ti])
	if acc := m.Accounts[mt]; acc != nil && (acc.Nonce != 0 || len(acc.Code) != 0 || len(acc.Storage) != 0 || acc.SelfDestructed) {
		return false
	}
	p.setNonce(ci, m.Nonce(MA(Addrs[ci]))+1)
	if p.F.R.IsEIP2929 {
		p.refAny(t)
		s.AddAddressToAccessList(t)
		m.WarmAddress(mt)
	}
	// collision check reads
	p.refState(t)
	p.Stats["reads"] += 2
	if g, w := s.GetCodeHash(t), common.Hash(m.CodeHash(mt)); g != w {
		p.fail("read:GetCodeHash", "GetCodeHash(%x) = %x, model %x", t, g, w)
	}
	if g, w := s.GetNonce(t), m.Nonce(mt); g != w {
		p.fail("read:GetNonce", "GetNonce(%x) = %d, model %d", t, g, w)
	}
	sid, mid := p.snapshot()
	p.Stats["reads"]++
	ex := s.Exist(t)
	if ex != m.Exist(mt) {
		p.fail("read:Exist", "Exist(%x) = %v, model %v", t, ex, m.Exist(mt))
		return true
	}
	if !ex {
		s.CreateAccount(t)
		m.CreateAccount(mt)
		p.Stats["op.CreateAccount"]++
		switch {
		case p.DeletedInBlock[ti] == 2:
			p.Resurrected["same-block-storage"] = true
			p.Stats["resurrect.same_block.had_storage"]++
		case p.DeletedInBlock[ti] == 1:
			p.Resurrected["same-block"] = true
			p.Stats["resurrect.same_block"]++
		case p.DeletedEver[ti]:
			p.Resurrected["later-block"] = true
			p.Stats["resurrect.later_block"]++
		}
	} else {
		p.Stats["op.create.prefunded"]++
	}
	s.CreateContract(t)
	m.MarkNewContract(mt)
	p.Stats["op.CreateContract"]++
	if p.F.R.IsEIP158 {
		p.setNonce(ti, 1)
	}
	p.subBalance(ci, amt)
	p.addBalance(ti, amt)
	p.frames = append(p.frames, frm{sid: sid, mid: mid, create: true, addr: ti})
	if d := len(p.frames); d > p.maxDepth {
		p.maxDepth = d
	}
	return true
}

// selfdestruct mirrors opSelfdestruct / opSelfdestruct6780 (incl. the Amsterdam variant).
func (p *Pair) selfdestruct(op Op) bool {
	s, m := p.S, p.M
	ai, bi := op.A, op.B
	if bi < 0 || !p.executing(ai) {
		return false
	}
	a, ma, b := Addrs[ai], MA(Addrs[ai]), Addrs[bi]
	balance := m.Balance(ma)
	if ai != bi && !p.canReceive(bi, balance) {
		return false
	}
	p.refState(a)
	p.cmpBig("GetBalance", a, s.GetBalance(a), balance)
	destruct := func() {
		s.SelfDestruct(a)
		m.SelfDestruct(ma)
		p.Stats["op.SelfDestruct"]++
	}
	if !p.F.R.IsCancun {
		if a != b {
			p.addBalance(bi, balance)
		}
		p.subBalance(ai, balance)
		destruct()
		p.DestructKinds["legacy"] = true
		return true
	}
	newContract := m.IsNewContract(ma)
	p.Stats["reads"]++
	if g := s.IsNewContract(a); g != newContract {
		p.fail("read:IsNewContract", "IsNewContract(%x) = %v, model %v", a, g, newContract)
		return true
	}
	if newContract {
		if a != b {
			p.addBalance(bi, balance)
			p.subBalance(ai, balance)
		} else if !p.F.R.IsAmsterdam {
			p.subBalance(ai, balance)
		}
		destruct()
		switch {
		case a == b && balance.Sign() > 0:
			p.DestructKinds["6780-new-self-funded"] = true
		default:
			p.DestructKinds["6780-new"] = true
		}
	} else if a != b {
		p.subBalance(ai, balance)
		p.addBalance(bi, balance)
		p.DestructKinds["6780-old-sweep"] = true
	} else {
		p.DestructKinds["6780-old-noop"] = true
	}
	return true
}

// ---- generator ----

// GenCfg tunes the generator.
type GenCfg struct {
	ReadLevel   int  // 0: sparse explicit reads, 1: a few after most ops, 2: full state after every op
	Restore     bool // emphasise change-and-restore patterns (C15)
	EndIRootPct int  // probability (%) that a post-Byzantium tx end calls IntermediateRoot instead of Finalise
	Churn       bool // emphasise account destruction and re-creation (C14)
	// Hook, if set, is called before the i-th generated op of the transaction (mid-transaction,
	// possibly with open frames); used for Copy() points.
	Hook func(i int)
}

// GenTx appends the ops of one transaction (begin … end) to out, executing them on p as it goes
// (the generator needs the model state to choose applicable ops).
func GenTx(p *Pair, rng *rand.Rand, nops int, cfg GenCfg, out []Op) []Op {
	emit := func(op Op) bool {
		ok := p.Exec(op)
		if ok || p.Err != nil {
			out = append(out, op)
		}
		return ok
	}
	begin := Op{K: "begin", A: rng.Intn(NReg), B: rng.Intn(NAddr+1) - 1}
	for n := rng.Intn(3); n > 0; n-- {
		begin.AL = append(begin.AL, rng.Intn(NAddr)*16+rng.Intn(len(Slots)+1))
	}
	emit(begin)
	reads := func() {
		switch cfg.ReadLevel {
		case 0:
			if rng.Intn(8) == 0 {
				emit(Op{K: "rd", A: rng.Intn(NAddr)})
			}
			if rng.Intn(8) == 0 {
				emit(Op{K: "rds", A: rng.Intn(NAddr), S: rng.Intn(len(Slots))})
			}
		case 1:
			emit(Op{K: "rd", A: rng.Intn(NAddr)})
			emit(Op{K: "rds", A: rng.Intn(NAddr), S: rng.Intn(len(Slots))})
			if rng.Intn(4) == 0 {
				emit(Op{K: "rdg"})
			}
		default:
			emit(Op{K: "rdall"})
		}
	}
	for i := 0; i < nops && p.Err == nil; i++ {
		if cfg.Hook != nil {
			cfg.Hook(i)
		}
		for try := 0; try < 8; try++ {
			if emit(genOp(p, rng, cfg)) {
				break
			}
		}
		reads()
	}
	// Unwind some frames explicitly, leave the rest open (a transaction end discards them).
	for len(p.frames) > 0 && rng.Intn(3) != 0 && p.Err == nil {
		emit(Op{K: "ret", V: rng.Intn(len(Codes))})
	}
	end := Op{K: "end"}
	if rng.Intn(100) < cfg.EndIRootPct {
		end.V = 1
	}
	emit(end)
	return out
}

func genOp(p *Pair, rng *rand.Rand, cfg GenCfg) Op {
	A := func() int { return rng.Intn(NAddr) }
	R := func() int { return rng.Intn(NReg) }
	// pick an executing contract if there is one
	X := func() int {
		c := rng.Intn(NReg)
		for j := 0; j < NReg; j++ {
			if p.executing((c + j) % NReg) {
				return (c + j) % NReg
			}
		}
		return c
	}
	// pick an account able to send
	Snd := func() int {
		c := rng.Intn(NReg)
		for j := 0; j < NReg; j++ {
			if p.canSend((c+j)%NReg, Amounts[0]) {
				return (c + j) % NReg
			}
		}
		return c
	}
	amt := func() int {
		if rng.Intn(3) == 0 {
			return 0
		}
		return rng.Intn(len(Amounts))
	}
	x := rng.Intn(100)
	if cfg.Churn && x < 20 {
		if rng.Intn(2) == 0 {
			return Op{K: "sd", A: X(), B: A()}
		}
		// prefer a creation target that does not exist (possibly deleted earlier in the block)
		t := R()
		for j := 0; j < NReg; j++ {
			if !p.M.Exist(MA(Addrs[(t+j)%NReg])) {
				t = (t + j) % NReg
				break
			}
		}
		return Op{K: "create", A: Snd(), B: t, V: amt()}
	}
	if cfg.Restore && x < 25 {
		// change-and-restore material: small symmetric amounts, slot toggles
		switch rng.Intn(4) {
		case 0:
			return Op{K: "xfer", A: Snd(), B: A(), V: 1 + rng.Intn(2)}
		case 1:
			return Op{K: "sstore", A: X(), S: rng.Intn(2), V: rng.Intn(3)}
		case 2:
			return Op{K: "add", A: A(), V: 1 + rng.Intn(2)}
		default:
			return Op{K: "sub", A: Snd(), V: 1 + rng.Intn(2)}
		}
	}
	switch {
	case x < 12:
		return Op{K: "add", A: A(), V: amt()}
	case x < 22:
		return Op{K: "xfer", A: Snd(), B: A(), V: amt()}
	case x < 25:
		return Op{K: "sub", A: Snd(), V: amt()}
	case x < 30:
		return Op{K: "nonce", A: R()}
	case x < 33:
		return Op{K: "deleg", A: R(), V: []int{0, FirstDeleg, FirstDeleg + 1}[rng.Intn(3)]}
	case x < 51:
		return Op{K: "sstore", A: X(), S: rng.Intn(len(Slots)), V: rng.Intn(len(Vals))}
	case x < 55:
		return Op{K: "tstore", A: R(), S: rng.Intn(len(Slots)), V: rng.Intn(len(Vals))}
	case x < 58:
		return Op{K: "warmA", A: A()}
	case x < 61:
		return Op{K: "warmS", A: A(), S: rng.Intn(len(Slots))}
	case x < 64:
		return Op{K: "refund+", N: uint64(rng.Intn(5000))}
	case x < 66:
		n := uint64(0)
		if p.M.Refund > 0 {
			n = uint64(rng.Int63n(int64(p.M.Refund) + 1))
		}
		return Op{K: "refund-", N: n}
	case x < 69:
		return Op{K: "log", A: A(), S: rng.Intn(len(Slots)), V: rng.Intn(len(Codes)), N: uint64(rng.Intn(5))}
	case x < 76:
		return Op{K: "call"}
	case x < 85:
		return Op{K: "create", A: Snd(), B: R(), V: amt()}
	case x < 93:
		v := 0
		if rng.Intn(2) == 0 {
			v = 1 + rng.Intn(FirstDeleg-1)
		}
		return Op{K: "ret", V: v}
	case x < 95:
		return Op{K: "retto", V: rng.Intn(8)}
	default:
		b := A()
		xx := X()
		if rng.Intn(3) == 0 {
			b = xx
		}
		return Op{K: "sd", A: xx, B: b}
	}
}

// ---- starting states ----

// Genesis describes a committed starting state.
type GenesisAccount struct {
	Addr    int         `json:"addr"`
	Nonce   uint64      `json:"nonce"`
	Balance int         `json:"balance_idx"`
	Code    int         `json:"code_idx"`
	Storage map[int]int `json:"storage,omitempty"` // slot idx -> val idx
	Empty   bool        `json:"empty,omitempty"`
}

// GenGenesis draws a starting state. Contracts have nonce 1 (post-158 creation) and code;
// EOAs have nonce>=1 or balance; empty accounts only where the rule set allowed them to exist
// (Frontier .. Byzantium era).
func GenGenesis(f Fork, rng *rand.Rand) []GenesisAccount {
	var g []GenesisAccount
	for i := 0; i < NAddr; i++ {
		switch x := rng.Intn(10); {
		case i >= NReg:
			// precompiles: absent, or (old rule sets) empty, or funded
			if x < 3 && !f.R.IsBerlin {
				g = append(g, GenesisAccount{Addr: i, Empty: true})
			} else if x < 5 {
				g = append(g, GenesisAccount{Addr: i, Balance: 1})
			}
		case x < 3: // absent
		case x < 6: // contract with storage
			// nonce 1 = created after Spurious Dragon, nonce 0 = created before (such contracts
			// with zero balance are non-empty because of their code and must survive a touch)
			ga := GenesisAccount{Addr: i, Nonce: uint64(rng.Intn(2)), Balance: rng.Intn(len(Amounts)), Code: 1 + rng.Intn(FirstDeleg-1), Storage: map[int]int{}}
			if !f.R.IsEIP158 {
				ga.Nonce = 0
			}
			for si := range Slots {
				if rng.Intn(3) != 0 {
					ga.Storage[si] = 1 + rng.Intn(len(Vals)-1)
				}
			}
			g = append(g, ga)
		case x < 8: // EOA
			g = append(g, GenesisAccount{Addr: i, Nonce: uint64(1 + rng.Intn(3)), Balance: rng.Intn(len(Amounts))})
		case x < 9: // pre-funded, never used (creation target)
			g = append(g, GenesisAccount{Addr: i, Balance: 1 + rng.Intn(len(Amounts)-1)})
		default:
			if !f.R.IsBerlin {
				g = append(g, GenesisAccount{Addr: i, Empty: true})
			}
		}
	}
	return g
}

// ApplyGenesis writes the starting state into a fresh StateDB (to be committed by the caller
// with pre-EIP-158 rules, so that empty accounts survive) and returns the matching model.
func ApplyGenesis(f Fork, s *state.StateDB, g []GenesisAccount) *am.State {
	m := am.New(f.M)
	for _, ga := range g {
		a := Addrs[ga.Addr]
		s.CreateAccount(a)
		acc := &am.Account{Balance: new(big.Int), Storage: map[am.Hash]am.Hash{}, StorageRootSeen: am.EmptyRoot}
		m.Accounts[MA(a)] = acc
		if ga.Empty {
			continue
		}
		s.SetNonce(a, ga.Nonce, tracing.NonceChangeUnspecified)
		acc.Nonce = ga.Nonce
		s.SetBalance(a, u256(Amounts[ga.Balance]), tracing.BalanceChangeUnspecified)
		acc.Balance = new(big.Int).Set(Amounts[ga.Balance])
		if ga.Code > 0 {
			s.SetCode(a, append([]byte(nil), Codes[ga.Code]...), tracing.CodeChangeUnspecified)
			acc.Code = append([]byte(nil), Codes[ga.Code]...)
		}
		for si, vi := range ga.Storage {
			s.SetState(a, Slots[si], Vals[vi])
			acc.Storage[MH(Slots[si])] = MH(Vals[vi])
		}
	}
	m.ResetTxStart()
	return m
}

// ---- minimisation ----

// Minimize is a bounded delta-debugging pass over an op list: it returns a sub-sequence for
// which fails() still holds. budget bounds the number of fails() calls.
func Minimize(ops []Op, budget int, fails func([]Op) bool) []Op {
	n := 2
	for len(ops) >= 2 && budget > 0 {
		chunk := (len(ops) + n - 1) / n
		reduced := false
		for i := 0; i < len(ops) && budget > 0; i += chunk {
			j := i + chunk
			if j > len(ops) {
				j = len(ops)
			}
			cand := append(append([]Op{}, ops[:i]...), ops[j:]...)
			budget--
			if fails(cand) {
				ops = cand
				if n > 2 {
					n--
				}
				reduced = true
				break
			}
		}
		if !reduced {
			if chunk == 1 {
				break
			}
			n *= 2
			if n > len(ops) {
				n = len(ops)
			}
		}
	}
	return ops
}
