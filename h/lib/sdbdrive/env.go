package sdbdrive

import (
	"github.com/ethereum/go-ethereum/common"
	"github.com/ethereum/go-ethereum/core/rawdb"
	"github.com/ethereum/go-ethereum/core/state"
	"github.com/ethereum/go-ethereum/core/state/snapshot"
	"github.com/ethereum/go-ethereum/core/types"
	"github.com/ethereum/go-ethereum/ethdb"
	"github.com/ethereum/go-ethereum/params"
	"github.com/ethereum/go-ethereum/triedb"
	"github.com/ethereum/go-ethereum/triedb/hashdb"
	"github.com/ethereum/go-ethereum/triedb/pathdb"

	am "verif/lib/acctmodel"
)

// DB kinds.
const (
	DBHash      = iota // hash scheme, trie reader only
	DBHashSnap         // hash scheme + snapshot tree (flat reader in front of the trie reader)
	DBPath             // path scheme, default write buffer (flat reader = pathdb state reader)
	DBPathSmall        // path scheme, 4 KiB write buffer, synchronous flush, no clean caches
	NDBKinds
)

var DBKindNames = []string{"hash", "hash+snap", "path", "path-4k"}

// Env is one state database over an in-memory key-value store.
type Env struct {
	Kind  int
	Disk  ethdb.Database
	TDB   *triedb.Database
	Snaps *snapshot.Tree
	DB    state.Database
}

// NewEnv creates an empty database of the given kind.
func NewEnv(kind int) *Env {
	e := &Env{Kind: kind, Disk: rawdb.NewMemoryDatabase()}
	e.openTDB()
	mdb := state.NewMPTDatabase(e.TDB, nil)
	if kind == DBHashSnap {
		e.Snaps, _ = snapshot.New(snapshot.Config{CacheSize: 1}, e.Disk, e.TDB, types.EmptyRootHash)
		e.DB = mdb.WithSnapshot(e.Snaps)
	} else {
		e.DB = mdb
	}
	return e
}

func (e *Env) openTDB() {
	switch e.Kind {
	case DBHash, DBHashSnap:
		e.TDB = triedb.NewDatabase(e.Disk, &triedb.Config{HashDB: hashdb.Defaults})
	case DBPath:
		c := *pathdb.Defaults
		e.TDB = triedb.NewDatabase(e.Disk, &triedb.Config{PathDB: &c})
	case DBPathSmall:
		e.TDB = triedb.NewDatabase(e.Disk, &triedb.Config{PathDB: &pathdb.Config{
			WriteBufferSize: 4096, NoAsyncFlush: true, TrienodeHistory: -1,
		}})
	}
}

// Reopen persists the state at root (triedb.Commit), throws the trie database (and snapshot
// tree) away and opens new ones over the same key-value store, as a restarted node would.
// persisted tells that triedb.Commit(root) has been done already (the path scheme refuses to
// commit its disk layer again).
func (e *Env) Reopen(root common.Hash, persisted bool) error {
	if !persisted {
		if err := e.TDB.Commit(root, false); err != nil {
			return err
		}
	}
	if e.Snaps != nil {
		e.Snaps.Release()
		e.Snaps = nil
	}
	if err := e.TDB.Close(); err != nil {
		return err
	}
	e.openTDB()
	mdb := state.NewMPTDatabase(e.TDB, nil)
	if e.Kind == DBHashSnap {
		// no snapshot journal was written: the tree is regenerated from the trie at root
		e.Snaps, _ = snapshot.New(snapshot.Config{CacheSize: 1}, e.Disk, e.TDB, root)
		e.DB = mdb.WithSnapshot(e.Snaps)
	} else {
		e.DB = mdb
	}
	return nil
}

// Close releases the database.
func (e *Env) Close() {
	if e.Snaps != nil {
		e.Snaps.Release()
	}
	e.TDB.Close()
	e.Disk.Close()
}

// Start commits a starting state (nil = empty) and returns a Pair opened at it. The starting
// state is committed under pre-EIP-158 rules so that empty accounts are kept. ok is false if
// the committed root already disagrees with the model (reported through the returned Failure).
func (e *Env) Start(f Fork, g []GenesisAccount) (*Pair, *Failure) {
	root := types.EmptyRootHash
	m := am.New(f.M)
	if len(g) > 0 {
		s, err := state.New(types.EmptyRootHash, e.DB)
		if err != nil {
			return nil, &Failure{FP: "genesis:open", Msg: err.Error()}
		}
		m = ApplyGenesis(f, s, g)
		root, err = s.Commit(params.Rules{}, 0)
		if err != nil {
			return nil, &Failure{FP: "genesis:commit", Msg: err.Error()}
		}
		if want := common.Hash(m.Root()); root != want {
			return nil, &Failure{FP: "root:genesis-commit", Msg: "genesis Commit root " + root.Hex() + " != model root " + want.Hex()}
		}
	}
	s, err := state.New(root, e.DB)
	if err != nil {
		return nil, &Failure{FP: "genesis:reopen", Msg: err.Error()}
	}
	p := NewPair(f, s, m)
	p.Block = 1
	return p, nil
}
