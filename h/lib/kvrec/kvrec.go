// Package kvrec is a recording ethdb.KeyValueStore over memorydb: every durable mutation
// (Put, Delete, DeleteRange, Batch.Write as ONE atomic unit) is applied under one mutex,
// appended to an operation log file with a sequence number, and announced by a marker line
// ("KV <seq>") written to a marker file inside the same critical section, so that the
// operation has a position in the syscall journal of the process (lib/sysjournal).
// SyncKeyValue writes "KVSYNC <seq>". Load re-materialises the store as of any log prefix.
//
// It models the ordered-durability contract go-ethereum relies on for Pebble without
// per-write sync: after a power loss a suffix of un-synced operations may be missing, but
// operations are never reordered or torn.
package kvrec

import (
	"bufio"
	"encoding/binary"
	"fmt"
	"io"
	"os"
	"sync"

	"github.com/ethereum/go-ethereum/ethdb"
	"github.com/ethereum/go-ethereum/ethdb/memorydb"
)

type entry struct {
	kind byte // 0 put, 1 delete, 2 delete-range
	k, v []byte
}

// Store is the recording store.
type Store struct {
	*memorydb.Database
	mu      sync.Mutex
	seq     uint64
	log     *bufio.Writer
	logf    *os.File
	marks   *os.File
	Monitor func(seq uint64, kind byte, k, v []byte) // optional write monitor (called under the mutex)
}

// New creates a store logging to oplogPath and marking into marks (may be nil).
func New(oplogPath string, marks *os.File) (*Store, error) {
	f, err := os.OpenFile(oplogPath, os.O_CREATE|os.O_WRONLY|os.O_APPEND, 0o644)
	if err != nil {
		return nil, err
	}
	return &Store{Database: memorydb.New(), logf: f, log: bufio.NewWriter(f), marks: marks}, nil
}

// Wrap continues logging on top of an already materialised database (after Load), starting
// at sequence number seq.
func Wrap(db *memorydb.Database, seq uint64, oplogPath string, marks *os.File) (*Store, error) {
	s, err := New(oplogPath, marks)
	if err != nil {
		return nil, err
	}
	s.Database = db
	s.seq = seq
	return s, nil
}

// Seq returns the number of operations applied so far.
func (s *Store) Seq() uint64 { s.mu.Lock(); defer s.mu.Unlock(); return s.seq }

func (s *Store) commit(es []entry) error {
	s.mu.Lock()
	defer s.mu.Unlock()
	b := s.Database.NewBatch()
	for _, e := range es {
		switch e.kind {
		case 0:
			b.Put(e.k, e.v)
		case 1:
			b.Delete(e.k)
		case 2:
			b.DeleteRange(e.k, e.v)
		}
	}
	if err := b.Write(); err != nil {
		return err
	}
	s.seq++
	var hdr [12]byte
	binary.BigEndian.PutUint64(hdr[:8], s.seq)
	binary.BigEndian.PutUint32(hdr[8:], uint32(len(es)))
	s.log.Write(hdr[:])
	for _, e := range es {
		var eh [9]byte
		eh[0] = e.kind
		if e.k == nil && e.kind == 2 {
			eh[0] |= 0x10 // nil start
		}
		if e.v == nil && e.kind == 2 {
			eh[0] |= 0x20 // nil end
		}
		binary.BigEndian.PutUint32(eh[1:5], uint32(len(e.k)))
		binary.BigEndian.PutUint32(eh[5:9], uint32(len(e.v)))
		s.log.Write(eh[:])
		s.log.Write(e.k)
		s.log.Write(e.v)
		if s.Monitor != nil {
			s.Monitor(s.seq, e.kind, e.k, e.v)
		}
	}
	s.log.Flush()
	if s.marks != nil {
		fmt.Fprintf(s.marks, "KV %d\n", s.seq)
	}
	return nil
}

func cp(b []byte) []byte {
	if b == nil {
		return nil
	}
	return append([]byte{}, b...)
}

func (s *Store) Put(k, v []byte) error         { return s.commit([]entry{{0, cp(k), append([]byte{}, v...)}}) }
func (s *Store) Delete(k []byte) error         { return s.commit([]entry{{1, cp(k), nil}}) }
func (s *Store) DeleteRange(a, b []byte) error { return s.commit([]entry{{2, cp(a), cp(b)}}) }

// SyncKeyValue marks everything so far as durable.
func (s *Store) SyncKeyValue() error {
	s.mu.Lock()
	defer s.mu.Unlock()
	if s.marks != nil {
		fmt.Fprintf(s.marks, "KVSYNC %d\n", s.seq)
	}
	return nil
}

// Close flushes the log (the in-memory data stays readable through Database until then).
func (s *Store) Close() error {
	s.mu.Lock()
	defer s.mu.Unlock()
	s.log.Flush()
	if s.marks != nil {
		fmt.Fprintf(s.marks, "KVSYNC %d\n", s.seq)
	}
	return nil
}

func (s *Store) NewBatch() ethdb.Batch            { return &batch{s: s} }
func (s *Store) NewBatchWithSize(int) ethdb.Batch { return &batch{s: s} }

type batch struct {
	s    *Store
	es   []entry
	size int
}

func (b *batch) Put(k, v []byte) error {
	b.es = append(b.es, entry{0, cp(k), append([]byte{}, v...)})
	b.size += len(k) + len(v)
	return nil
}
func (b *batch) Delete(k []byte) error {
	b.es = append(b.es, entry{1, cp(k), nil})
	b.size += len(k)
	return nil
}
func (b *batch) DeleteRange(x, y []byte) error {
	b.es = append(b.es, entry{2, cp(x), cp(y)})
	b.size += len(x) + len(y)
	return nil
}
func (b *batch) ValueSize() int { return b.size }
func (b *batch) Write() error {
	if len(b.es) == 0 {
		return nil
	}
	return b.s.commit(b.es)
}
func (b *batch) Reset() { b.es, b.size = nil, 0 }
func (b *batch) Close() {}
func (b *batch) Replay(w ethdb.KeyValueWriter) error {
	for _, e := range b.es {
		var err error
		switch e.kind {
		case 0:
			err = w.Put(e.k, e.v)
		case 1:
			err = w.Delete(e.k)
		case 2:
			if rd, ok := w.(ethdb.KeyValueRangeDeleter); ok {
				err = rd.DeleteRange(e.k, e.v)
			} else {
				err = fmt.Errorf("ethdb.KeyValueWriter does not implement DeleteRange")
			}
		}
		if err != nil {
			return err
		}
	}
	return nil
}

// Load materialises the store as of the first upto operations of the log (upto = ^0 for
// all). It returns the database and the number of operations applied.
func Load(oplogPath string, upto uint64) (*memorydb.Database, uint64, error) {
	var n uint64
	if upto == 0 {
		return memorydb.New(), 0, nil
	}
	db, err := Walk(oplogPath, func(seq uint64, db *memorydb.Database) bool {
		n = seq
		return seq < upto
	})
	return db, n, err
}

// Walk applies the log operation by operation, calling visit after each one (with the live
// database); it stops when visit returns false or the log ends, and returns the database.
func Walk(oplogPath string, visit func(seq uint64, db *memorydb.Database) bool) (*memorydb.Database, error) {
	f, err := os.Open(oplogPath)
	if err != nil {
		return nil, err
	}
	defer f.Close()
	r := bufio.NewReader(f)
	db := memorydb.New()
	var n uint64
	for {
		var hdr [12]byte
		if _, err := io.ReadFull(r, hdr[:]); err != nil {
			if err == io.EOF {
				break
			}
			return nil, err
		}
		seq := binary.BigEndian.Uint64(hdr[:8])
		cnt := binary.BigEndian.Uint32(hdr[8:])
		if seq != n+1 {
			return nil, fmt.Errorf("oplog: sequence %d after %d", seq, n)
		}
		b := db.NewBatch()
		for i := uint32(0); i < cnt; i++ {
			var eh [9]byte
			if _, err := io.ReadFull(r, eh[:]); err != nil {
				return nil, err
			}
			k := make([]byte, binary.BigEndian.Uint32(eh[1:5]))
			v := make([]byte, binary.BigEndian.Uint32(eh[5:9]))
			if _, err := io.ReadFull(r, k); err != nil {
				return nil, err
			}
			if _, err := io.ReadFull(r, v); err != nil {
				return nil, err
			}
			switch eh[0] & 0x0f {
			case 0:
				b.Put(k, v)
			case 1:
				b.Delete(k)
			case 2:
				var x, y []byte = k, v
				if eh[0]&0x10 != 0 {
					x = nil
				}
				if eh[0]&0x20 != 0 {
					y = nil
				}
				b.DeleteRange(x, y)
			}
		}
		if err := b.Write(); err != nil {
			return nil, err
		}
		n++
		if !visit(n, db) {
			break
		}
	}
	return db, nil
}
