package proggen

import (
	"fmt"
	"math/big"

	"github.com/ethereum/go-ethereum/common"
	"github.com/holiman/uint256"
)

// Label is a position in the code being assembled (bound later with Bind/Mark, or a data
// segment appended after the code).
type Label int

type fixup struct {
	pos   int // position of the 2 immediate bytes of a PUSH2
	label Label
}

// Asm is a tiny EVM assembler: opcodes, minimal-width pushes, labels with PUSH2 fix-ups and
// data segments appended behind the code (separated from it by a STOP byte).
type Asm struct {
	code   []byte
	labels []int // label -> position, -1 unbound, -2-i: data segment i
	fix    []fixup
	data   [][]byte
	// UsePush0 makes Push(0) emit PUSH0 (only valid from Shanghai on).
	UsePush0 bool
}

// NewAsm returns an empty assembler.
func NewAsm() *Asm { return &Asm{} }

// Len is the current code length (without data segments).
func (a *Asm) Len() int { return len(a.code) }

// Op appends raw opcode bytes.
func (a *Asm) Op(ops ...byte) *Asm { a.code = append(a.code, ops...); return a }

// Raw appends arbitrary bytes (same as Op; reads better for junk/data).
func (a *Asm) Raw(b []byte) *Asm { a.code = append(a.code, b...); return a }

// PushBytes emits the minimal PUSHn for the big-endian value b (leading zeros stripped;
// the zero value is PUSH1 0 or PUSH0 when UsePush0 is set). len(b) must be <= 32.
func (a *Asm) PushBytes(b []byte) *Asm {
	for len(b) > 0 && b[0] == 0 {
		b = b[1:]
	}
	if len(b) > 32 {
		panic("proggen: push wider than 32 bytes")
	}
	if len(b) == 0 {
		if a.UsePush0 {
			return a.Op(PUSH0)
		}
		return a.Op(PUSH1, 0)
	}
	a.code = append(a.code, byte(PUSH1+len(b)-1))
	a.code = append(a.code, b...)
	return a
}

// PushN emits PUSHn with exactly n immediate bytes (value left-padded with zeros).
func (a *Asm) PushN(n int, b []byte) *Asm {
	if n < 1 || n > 32 || len(b) > n {
		panic("proggen: bad PushN")
	}
	a.code = append(a.code, byte(PUSH1+n-1))
	a.code = append(a.code, make([]byte, n-len(b))...)
	a.code = append(a.code, b...)
	return a
}

// Push emits a minimal push of x: int, uint64, *big.Int, *uint256.Int, uint256.Int,
// []byte (big-endian), common.Address (always PUSH20), common.Hash (always PUSH32).
func (a *Asm) Push(x any) *Asm {
	switch v := x.(type) {
	case int:
		if v < 0 {
			panic("proggen: negative push")
		}
		return a.PushBytes(new(big.Int).SetInt64(int64(v)).Bytes())
	case uint64:
		return a.PushBytes(new(big.Int).SetUint64(v).Bytes())
	case byte:
		return a.PushBytes([]byte{v})
	case *big.Int:
		return a.PushBytes(v.Bytes())
	case *uint256.Int:
		return a.PushBytes(v.Bytes())
	case uint256.Int:
		return a.PushBytes(v.Bytes())
	case []byte:
		return a.PushBytes(v)
	case common.Address:
		return a.PushN(20, v[:])
	case common.Hash:
		return a.PushN(32, v[:])
	}
	panic(fmt.Sprintf("proggen: cannot push %T", x))
}

// NewLabel allocates an unbound label.
func (a *Asm) NewLabel() Label {
	a.labels = append(a.labels, -1)
	return Label(len(a.labels) - 1)
}

// Bind binds l to the current position and emits a JUMPDEST there.
func (a *Asm) Bind(l Label) *Asm {
	a.labels[l] = len(a.code)
	return a.Op(JUMPDEST)
}

// Mark binds l to the current position without emitting anything (e.g. to point into the
// immediate data of the next push).
func (a *Asm) Mark(l Label) *Asm { a.labels[l] = len(a.code); return a }

// MarkAt binds l to an explicit position.
func (a *Asm) MarkAt(l Label, pos int) *Asm { a.labels[l] = pos; return a }

// Here binds a fresh label at the current position with a JUMPDEST and returns it.
func (a *Asm) Here() Label { l := a.NewLabel(); a.Bind(l); return l }

// PushLabel emits PUSH2 <position of l> (resolved in Bytes).
func (a *Asm) PushLabel(l Label) *Asm {
	a.code = append(a.code, PUSH2, 0, 0)
	a.fix = append(a.fix, fixup{len(a.code) - 2, l})
	return a
}

// JumpTo emits PUSH2 l; JUMP.
func (a *Asm) JumpTo(l Label) *Asm { return a.PushLabel(l).Op(JUMP) }

// JumpIf emits PUSH2 l; JUMPI (the condition must already be on the stack).
func (a *Asm) JumpIf(l Label) *Asm { return a.PushLabel(l).Op(JUMPI) }

// Data registers a data segment placed behind the code and returns a label of its start
// (use with PushLabel + CODECOPY).
func (a *Asm) Data(b []byte) Label {
	a.data = append(a.data, append([]byte{}, b...))
	a.labels = append(a.labels, -2-(len(a.data)-1))
	return Label(len(a.labels) - 1)
}

// Bytes resolves labels and returns code ‖ [STOP ‖ data segments]. Unbound labels resolve
// to a position behind the end of the code (an invalid jump target).
func (a *Asm) Bytes() []byte {
	out := append([]byte{}, a.code...)
	dataPos := make([]int, len(a.data))
	if len(a.data) > 0 {
		out = append(out, STOP)
		for i, d := range a.data {
			dataPos[i] = len(out)
			out = append(out, d...)
		}
	}
	for _, f := range a.fix {
		p := a.labels[f.label]
		switch {
		case p == -1:
			p = len(out) + 7
		case p <= -2:
			p = dataPos[-2-p]
		}
		if p > 0xffff {
			p = 0xffff
		}
		out[f.pos], out[f.pos+1] = byte(p>>8), byte(p)
	}
	return out
}

// InitCodeReturning returns init code that deploys runtime (valid in every rule set):
// CODECOPY of the trailing runtime bytes to memory 0 followed by RETURN.
func InitCodeReturning(runtime []byte) []byte {
	a := NewAsm()
	l := a.Data(runtime)
	a.Push(len(runtime)).PushLabel(l).Push(0).Op(CODECOPY)
	a.Push(len(runtime)).Push(0).Op(RETURN)
	out := a.Bytes()
	// Bytes() puts a STOP between code and data; it is unreachable (after RETURN) - keep it.
	return out
}

// ReturnConst returns a program that returns the given bytes (copied from its own code).
func ReturnConst(b []byte) []byte { return InitCodeReturning(b) }
