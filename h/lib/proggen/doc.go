// Package proggen generates EVM bytecode for the execution-layer property harnesses
// (C26–C37). Programs are generated *structurally* (statements with a tracked stack height,
// so that most programs run for a while instead of dying on the first byte), with a fraction
// of raw random bytes and of single-byte mutations of structured programs.
//
// # Quick reference
//
//	p := proggen.Gen(rng, proggen.Opts{Fork: "Cancun", Addrs: others, MaxLen: 300})
//	p.Code          // bytecode
//	p.GasDependent  // reads GAS / forwards computed gas / unbounded recursion / raw / mutated
//	p.Features      // statement kinds used ("storage", "call", ...), "op:<NAME>" per opcode emitted
//	                // on purpose, "end:<kind>", "hostile", "recursion", "infinite_loop", "create:<variant>"
//
// Opts: Fork (name; ParseFork accepts "Frontier".."Amsterdam" and the tests.Forks aliases
// EIP150, EIP158, ConstantinopleFix, Merge, BPO1.., ...); Addrs (other accounts to reference);
// MaxLen (soft, default 384); AllowGasDependent; Mode (ModeMixed 80/10/10, ModeStructured,
// ModeRaw, ModeMutated); End (EndAny, EndStop, EndReturn, EndRevert, EndInvalid, EndOOG,
// EndStackUnderflow, EndBadJump, EndStackOverflow, EndSelfdestruct); Hostile (probability of
// hostile operands: offsets/sizes near 2^32, 2^63, 2^64, 2^256; undefined opcodes; invalid
// jump targets; default 0.02, negative = none); NoEarlyExit; NoUnbounded (no endless loops /
// unbounded recursion: terminates quickly under any gas limit); Weights (multipliers per statement
// kind, see Kinds; 0 disables).
//
// What the structural generator emits (every opcode of the rule set is reachable): arithmetic
// incl. EXP with large exponents, SIGNEXTEND, shifts, CLZ; KECCAK256 over varied ranges;
// environment and block opcodes incl. BLOCKHASH near/far the 256 window, BLOBHASH,
// BLOBBASEFEE, SLOTNUM; CALLDATA/CODE/EXTCODE/RETURNDATA copies incl. out-of-bounds; MCOPY
// overlaps; SLOAD/SSTORE patterns a→b→a, 0→x→0, read-modify-write; TLOAD/TSTORE; LOG0–4;
// CREATE/CREATE2 with generated init code (returns generated runtime code, is itself a
// generated program, reverts, runs out of gas, returns 0xEF-prefixed / oversized / empty
// code, CREATE2 collision by repetition), optionally calling the created contract;
// CALL/CALLCODE/DELEGATECALL/STATICCALL with value, gas 0 / 2300 / fixed / all / GAS÷2, to
// Addrs, precompiles (with small words pre-stored in memory as input), self (recursion bounded
// by a counter in storage slot 0xfe, or unbounded when AllowGasDependent), CALLER, ORIGIN,
// COINBASE, zero and random addresses; SELFDESTRUCT; if / if-else / computed jumps, bounded
// loops (1–6, rarely 100–300 iterations), jumps over junk bytes, jumps into push data and
// other invalid targets; DUP/SWAP/POP/PUSH0, deep stacks with DUP16/SWAP16/DUPN/SWAPN/EXCHANGE;
// early exits under a condition; all terminators.
//
// Storage slots used by generated code: 0–5 and 16–19 (patterns), 0xfe (recursion counter),
// rarely random 32-byte keys. Memory use stays below ~4 KiB except for hostile operands and
// the rare 2^14/2^16 sizes.
//
// # Helpers
//
//	Asm                      assembler: Op, Push(any), PushBytes, PushN, NewLabel/Bind/Mark/Here,
//	                         PushLabel, JumpTo, JumpIf, Data (segment behind the code), Bytes
//	InitCodeReturning(rt)    init code deploying rt (all rule sets); ReturnConst(b)
//	Wrapper(op, callee, w)   CALL/CALLCODE/DELEGATECALL/STATICCALL wrapper: stores the success
//	                         flag (w.StoreFlag/FlagSlot), runs w.Suffix, returns the callee's
//	                         return data (w.ReturnData, Byzantium+) or a fixed window (w.OutSize)
//	CreateWrapper(op, init, w)  CREATE/CREATE2 wrapper storing only "address != 0"
//	ProbeSuffix(fork, Probe) straight-line probe: GAS-measured BALANCE/EXTCODESIZE/SLOAD cost
//	                         (access-list warmth), slot values, TLOAD values, own balance →
//	                         consecutive storage slots from Probe.Base (Probe.NumSlots)
//	Polluter(fork, n, end)   fills n ≤ 16 KiB of memory and 1024 stack slots with 0xFF words
//	ZeroMemProbe(fork, variant, size, other)  expands memory without writing, returns it
//	                         (variants: RETURN, MLOAD+MSIZE, KECCAK256, MCOPY, identity-call
//	                         output window, LOG0 [fails in static context], call to `other` first)
//	PrecompileCall(fork, op, addr, input, outSize)  returns flag ‖ precompile output
//	JumpHeavy(rng, n, prefix) permuted chain of jump blocks with JUMPDEST decoys in push data
//	RawBytes(rng, n), Mutate(rng, code)
//	Ops(fork), Valid(fork, op), Info(op), Precompiles(fork), EncodeSingle, EncodePair, AllForks
//
// Opcode validity per rule set comes from proggen's own table (ops.go); the test
// TestTableAgainstGeth cross-checks it against vm.LookupInstructionSet as a sanity test only.
package proggen
