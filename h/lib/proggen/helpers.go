package proggen

import (
	"math/rand"

	"github.com/ethereum/go-ethereum/common"
	"github.com/holiman/uint256"
)

// WrapOpts configures Wrapper / CreateWrapper. All emitted code is valid in every rule set in
// which the wrapped opcode itself is defined (no PUSH0, no RETURNDATA* unless asked for).
type WrapOpts struct {
	// Gas forwarded; nil = "all" (PUSH32 0xff..ff, i.e. everything the rule set allows).
	Gas *uint256.Int
	// Value sent (CALL, CALLCODE, CREATE, CREATE2); nil = 0.
	Value *uint256.Int
	// ForwardCalldata copies the wrapper's call data to memory 0 and passes it as input.
	ForwardCalldata bool
	// Input is a constant input (ignored when ForwardCalldata is set); copied from a data segment.
	Input []byte
	// StoreFlag stores the success flag (resp. "created address != 0") into storage slot FlagSlot
	// of the executing account.
	StoreFlag bool
	FlagSlot  uint64
	// Suffix is position-independent code (no absolute jumps) run after the flag is stored;
	// e.g. the result of ProbeSuffix. It must leave the stack as it found it.
	Suffix []byte
	// ReturnData: after the suffix RETURN the callee's return data (RETURNDATACOPY; requires
	// Byzantium). With OutSize > 0 instead the fixed output window [0, OutSize) is returned,
	// which works in every rule set. Otherwise the wrapper ends with STOP.
	ReturnData bool
	OutSize    uint64
	// Salt for CREATE2.
	Salt uint64
	// Pre150 must be set for Frontier and Homestead when Gas is nil: before EIP-150 a call
	// requesting more gas than available faults, so "all" is emitted as GAS-50000 there.
	Pre150 bool
}

var allGas = new(uint256.Int).SetAllOne()

// pushAll emits the "all gas" argument for rule set f (see WrapOpts.Pre150).
func pushAll(a *Asm, f Fork) {
	if f < TangerineWhistle {
		a.Push(50000).Op(GAS, SUB)
	} else {
		a.Push(allGas)
	}
}

// Wrapper returns code that performs op (CALL, CALLCODE, DELEGATECALL or STATICCALL) on callee,
// stores the success flag and runs the suffix; see WrapOpts. Note that a callee that halts
// exceptionally burns everything it was given: with Gas == nil only 1/64 of the wrapper's gas
// is left for the flag store and the suffix (under Amsterdam a fresh storage slot costs ~98k
// state gas), so give the callee an explicit amount when the suffix matters.
func Wrapper(op byte, callee common.Address, w WrapOpts) []byte {
	a := NewAsm()
	// input
	inSize := func() {}
	switch {
	case w.ForwardCalldata:
		a.Op(CALLDATASIZE).Push(0).Push(0).Op(CALLDATACOPY)
		inSize = func() { a.Op(CALLDATASIZE) }
	case len(w.Input) > 0:
		l := a.Data(w.Input)
		a.Push(len(w.Input)).PushLabel(l).Push(0).Op(CODECOPY)
		inSize = func() { a.Push(len(w.Input)) }
	default:
		inSize = func() { a.Push(0) }
	}
	a.Push(w.OutSize).Push(0) // out size, out offset
	inSize()
	a.Push(0) // in offset
	if op == CALL || op == CALLCODE {
		if w.Value != nil {
			a.Push(w.Value)
		} else {
			a.Push(0)
		}
	}
	a.Push(callee)
	switch {
	case w.Gas != nil:
		a.Push(w.Gas)
	case w.Pre150:
		a.Push(50000).Op(GAS, SUB)
	default:
		a.Push(allGas)
	}
	a.Op(op)
	finishWrapper(a, w)
	return a.Bytes()
}

// CreateWrapper returns code that runs CREATE or CREATE2 with the given init code, stores
// only "created address != 0" as the flag and runs the suffix.
func CreateWrapper(op byte, initcode []byte, w WrapOpts) []byte {
	a := NewAsm()
	l := a.Data(initcode)
	a.Push(len(initcode)).PushLabel(l).Push(0).Op(CODECOPY)
	if op == CREATE2 {
		a.Push(w.Salt)
	}
	a.Push(len(initcode)).Push(0)
	if w.Value != nil {
		a.Push(w.Value)
	} else {
		a.Push(0)
	}
	a.Op(op)
	a.Op(ISZERO, ISZERO)
	finishWrapper(a, w)
	return a.Bytes()
}

func finishWrapper(a *Asm, w WrapOpts) {
	if w.StoreFlag {
		a.Push(w.FlagSlot).Op(SSTORE)
	} else {
		a.Op(POP)
	}
	a.Raw(w.Suffix)
	switch {
	case w.OutSize > 0:
		a.Push(w.OutSize).Push(0).Op(RETURN)
	case w.ReturnData:
		a.Op(RETURNDATASIZE).Push(0).Push(0).Op(RETURNDATACOPY)
		a.Op(RETURNDATASIZE).Push(0).Op(RETURN)
	default:
		a.Op(STOP)
	}
}

// Probe describes what a probe suffix records.
type Probe struct {
	Addrs  []common.Address // BALANCE and EXTCODESIZE cost (access-list warmth) per address
	Slots  []uint64         // SLOAD cost and value of the executing account's slots
	TSlots []uint64         // TLOAD values (Cancun+)
	Base   uint64           // first result slot; results are stored in consecutive slots from here
}

// NumSlots is the number of result slots the probe writes.
func (p Probe) NumSlots(f Fork) int {
	n := 2*len(p.Addrs) + 2*len(p.Slots) + 1
	if f >= Cancun {
		n += len(p.TSlots)
	}
	return n
}

// ProbeSuffix returns straight-line, stack-neutral code that measures with GAS the cost of
// BALANCE and EXTCODESIZE for every address, of SLOAD for every slot (cold/warm shows in the
// difference), reads the slot values, the TLOAD values and the executing account's balance,
// and stores everything into consecutive storage slots starting at p.Base. The measured numbers
// include a constant overhead; they are meant to be compared between two runs, not interpreted.
func ProbeSuffix(f Fork, p Probe) []byte {
	a := NewAsm()
	slot := p.Base
	store := func() { a.Push(slot).Op(SSTORE); slot++ }
	measure := func(body func()) {
		a.Op(GAS)
		body()
		a.Op(POP)
		a.Op(GAS, SWAP1, SUB)
		store()
	}
	for _, ad := range p.Addrs {
		measure(func() { a.Push(ad).Op(BALANCE) })
		measure(func() { a.Push(ad).Op(EXTCODESIZE) })
	}
	for _, s := range p.Slots {
		measure(func() { a.Push(s).Op(SLOAD) })
		a.Push(s).Op(SLOAD)
		store()
	}
	if f >= Cancun {
		for _, s := range p.TSlots {
			a.Push(s).Op(TLOAD)
			store()
		}
	}
	if f >= Istanbul {
		a.Op(SELFBALANCE)
	} else {
		a.Op(ADDRESS, BALANCE)
	}
	store()
	return a.Bytes()
}

// Polluter returns a program that fills n bytes of memory (n <= 16384, rounded down to a
// multiple of 32, at least 32) and all 1024 stack slots with 0xFF words and then ends as
// requested (EndReturn, EndRevert, EndInvalid, EndStop, EndStackOverflow; others = EndStop).
func Polluter(f Fork, n int, end End) []byte {
	if n > 16384 {
		n = 16384
	}
	n &^= 31
	if n < 32 {
		n = 32
	}
	a := NewAsm()
	a.Push(allGas) // [v]
	a.Push(n)      // [v, i]
	top := a.Here()
	a.Push(32).Op(SWAP1, SUB) // [v, i-32]
	a.Op(DUP2, DUP2, MSTORE)  // mem[i-32] = v
	a.Op(DUP1).JumpIf(top)
	a.Op(POP) // [v]
	for i := 0; i < 1023; i++ {
		a.Op(DUP1)
	}
	switch end {
	case EndReturn:
		a.Op(POP, POP).Push(64).Push(0).Op(RETURN)
	case EndRevert:
		if f >= Byzantium {
			a.Op(POP, POP).Push(64).Push(0).Op(REVERT)
		} else {
			a.Op(INVALID)
		}
	case EndInvalid:
		a.Op(INVALID)
	case EndStackOverflow:
		a.Op(DUP1)
	default:
		a.Op(STOP)
	}
	return a.Bytes()
}

// NumZeroMemProbes is the number of ZeroMemProbe variants.
const NumZeroMemProbes = 7

// ZeroMemProbe returns a program that expands its memory to about size bytes WITHOUT writing
// non-zero data to it and RETURNs the expanded region: every returned byte must be zero in any
// context. variant selects how memory is expanded (mod NumZeroMemProbes): 0 RETURN itself,
// 1 MLOAD + MSIZE, 2 KECCAK256, 3 MCOPY from beyond the end (Cancun+, else as 0), 4 output
// window of a call to the identity precompile with empty input, 5 LOG0 (fails in a static
// context), 6 a call to `other` (if non-nil, e.g. a polluter) with empty windows first, then
// as variant 1.
func ZeroMemProbe(f Fork, variant int, size int, other *common.Address) []byte {
	if size < 32 {
		size = 32
	}
	a := NewAsm()
	retAll := func() { a.Op(MSIZE).Push(0).Op(RETURN) }
	switch v := ((variant % NumZeroMemProbes) + NumZeroMemProbes) % NumZeroMemProbes; v {
	case 1:
		a.Push(size-32).Op(MLOAD, POP)
		retAll()
	case 2:
		a.Push(size).Push(0).Op(KECCAK256, POP)
		retAll()
	case 3:
		if f >= Cancun {
			a.Push(32).Push(size - 32).Push(0).Op(MCOPY)
			retAll()
		} else {
			a.Push(size).Push(0).Op(RETURN)
		}
	case 4:
		a.Push(size).Push(0).Push(0).Push(0).Push(0).Push(4)
		pushAll(a, f)
		a.Op(CALL, POP)
		retAll()
	case 5:
		a.Push(size).Push(0).Op(LOG0)
		retAll()
	case 6:
		if other != nil {
			a.Push(0).Push(0).Push(0).Push(0).Push(0).Push(*other)
			pushAll(a, f)
			a.Op(CALL, POP)
		}
		a.Push(size-32).Op(MLOAD, POP)
		retAll()
	default:
		a.Push(size).Push(0).Op(RETURN)
	}
	return a.Bytes()
}

// PrecompileCall returns a program that calls precompile addr (low 16 bits of the address)
// with the constant input using op (CALL, STATICCALL, DELEGATECALL or CALLCODE) and all gas,
// and returns success flag (32 bytes) ‖ output. Before Byzantium (no RETURNDATASIZE) the
// output window has the fixed size outSize; from Byzantium on the exact return data is used
// when outSize < 0.
func PrecompileCall(f Fork, op byte, addr uint16, input []byte, outSize int) []byte {
	a := NewAsm()
	if len(input) > 0 {
		l := a.Data(input)
		a.Push(len(input)).PushLabel(l).Push(0).Op(CODECOPY)
	}
	exact := outSize < 0 && f >= Byzantium
	if outSize < 0 {
		outSize = 0
	}
	base := (len(input) + 63) &^ 31 // flag word position, output follows
	a.Push(outSize).Push(base + 32).Push(len(input)).Push(0)
	if op == CALL || op == CALLCODE {
		a.Push(0)
	}
	a.Push(int(addr))
	pushAll(a, f)
	a.Op(op)
	a.Push(base).Op(MSTORE)
	if exact {
		a.Op(RETURNDATASIZE).Push(0).Push(base + 32).Op(RETURNDATACOPY)
		a.Op(RETURNDATASIZE).Push(32).Op(ADD).Push(base).Op(RETURN)
	} else {
		a.Push(outSize + 32).Push(base).Op(RETURN)
	}
	return a.Bytes()
}

// JumpHeavy returns a gas-independent program consisting of n chained jump blocks visited in
// a permuted order (every block: JUMPDEST, small arithmetic on an accumulator, jump to the
// next), with push-data decoys containing JUMPDEST bytes between blocks. It returns the
// 32-byte accumulator. prefix is prepended verbatim as dead data behind an initial jump, so
// that programs with a common prefix but different jump tables can be produced.
func JumpHeavy(rng *rand.Rand, n int, prefix []byte) []byte {
	if n < 1 {
		n = 1
	}
	a := NewAsm()
	labels := make([]Label, n)
	for i := range labels {
		labels[i] = a.NewLabel()
	}
	end := a.NewLabel()
	order := rng.Perm(n)
	a.Push(rng.Intn(1 << 16)) // accumulator
	a.JumpTo(labels[order[0]])
	a.Raw(prefix)
	a.Raw(make([]byte, 32)) // a trailing PUSHn of the prefix cannot swallow real code
	next := make([]Label, n)
	for i := 0; i < n; i++ {
		if i+1 < n {
			next[order[i]] = labels[order[i+1]]
		} else {
			next[order[i]] = end
		}
	}
	for i := 0; i < n; i++ {
		a.Bind(labels[i])
		a.Push(1 + rng.Intn(250))
		a.Op([]byte{ADD, MUL, XOR, SUB}[rng.Intn(4)])
		if rng.Intn(2) == 0 {
			// conditional jump that is always taken (accumulator-independent condition)
			a.Push(1).JumpIf(next[i])
			a.Op(INVALID)
		} else {
			a.JumpTo(next[i])
		}
		// decoy: push data with JUMPDEST bytes, never executed
		a.Op(PUSH4, JUMPDEST, byte(rng.Intn(256)), JUMPDEST, JUMPDEST)
	}
	a.Bind(end)
	a.Push(0).Op(MSTORE).Push(32).Push(0).Op(RETURN)
	return a.Bytes()
}
