package proggen

import "strings"

// Fork identifies an EVM rule set (instruction-set level). BPO forks map to Osaka,
// glacier forks to the preceding instruction-set fork.
type Fork int

const (
	Frontier Fork = iota
	Homestead
	TangerineWhistle // EIP-150
	SpuriousDragon   // EIP-158
	Byzantium
	Constantinople
	Petersburg
	Istanbul
	Berlin
	London
	Paris // the Merge
	Shanghai
	Cancun
	Prague
	Osaka
	Amsterdam
	numForks
)

var forkNames = [...]string{"Frontier", "Homestead", "TangerineWhistle", "SpuriousDragon", "Byzantium",
	"Constantinople", "Petersburg", "Istanbul", "Berlin", "London", "Paris", "Shanghai", "Cancun",
	"Prague", "Osaka", "Amsterdam"}

// AllForks lists every rule set known to proggen, oldest first.
func AllForks() []Fork {
	r := make([]Fork, numForks)
	for i := range r {
		r[i] = Fork(i)
	}
	return r
}

func (f Fork) String() string {
	if f < 0 || f >= numForks {
		return "Fork?"
	}
	return forkNames[f]
}

var forkAlias = map[string]Fork{
	"eip150": TangerineWhistle, "tangerine": TangerineWhistle, "eip158": SpuriousDragon, "spurious": SpuriousDragon,
	"constantinoplefix": Petersburg, "muirglacier": Istanbul, "arrowglacier": London, "grayglacier": London,
	"merge": Paris, "bpo1": Osaka, "bpo2": Osaka, "bpo3": Osaka, "bpo4": Osaka, "bpo5": Osaka, "bogota": Amsterdam,
}

// ParseFork maps a fork name (proggen's own names and the names used as keys of
// tests.Forks, case-insensitive) to a Fork. Unknown names yield (Cancun, false).
func ParseFork(name string) (Fork, bool) {
	l := strings.ToLower(name)
	for i, n := range forkNames {
		if strings.ToLower(n) == l {
			return Fork(i), true
		}
	}
	if f, ok := forkAlias[l]; ok {
		return f, true
	}
	return Cancun, false
}

// Opcode bytes (own table; deliberately not imported from core/vm).
const (
	STOP           = 0x00
	ADD            = 0x01
	MUL            = 0x02
	SUB            = 0x03
	DIV            = 0x04
	SDIV           = 0x05
	MOD            = 0x06
	SMOD           = 0x07
	ADDMOD         = 0x08
	MULMOD         = 0x09
	EXP            = 0x0a
	SIGNEXTEND     = 0x0b
	LT             = 0x10
	GT             = 0x11
	SLT            = 0x12
	SGT            = 0x13
	EQ             = 0x14
	ISZERO         = 0x15
	AND            = 0x16
	OR             = 0x17
	XOR            = 0x18
	NOT            = 0x19
	BYTE           = 0x1a
	SHL            = 0x1b
	SHR            = 0x1c
	SAR            = 0x1d
	CLZ            = 0x1e
	KECCAK256      = 0x20
	ADDRESS        = 0x30
	BALANCE        = 0x31
	ORIGIN         = 0x32
	CALLER         = 0x33
	CALLVALUE      = 0x34
	CALLDATALOAD   = 0x35
	CALLDATASIZE   = 0x36
	CALLDATACOPY   = 0x37
	CODESIZE       = 0x38
	CODECOPY       = 0x39
	GASPRICE       = 0x3a
	EXTCODESIZE    = 0x3b
	EXTCODECOPY    = 0x3c
	RETURNDATASIZE = 0x3d
	RETURNDATACOPY = 0x3e
	EXTCODEHASH    = 0x3f
	BLOCKHASH      = 0x40
	COINBASE       = 0x41
	TIMESTAMP      = 0x42
	NUMBER         = 0x43
	PREVRANDAO     = 0x44 // DIFFICULTY before Paris
	GASLIMIT       = 0x45
	CHAINID        = 0x46
	SELFBALANCE    = 0x47
	BASEFEE        = 0x48
	BLOBHASH       = 0x49
	BLOBBASEFEE    = 0x4a
	SLOTNUM        = 0x4b
	POP            = 0x50
	MLOAD          = 0x51
	MSTORE         = 0x52
	MSTORE8        = 0x53
	SLOAD          = 0x54
	SSTORE         = 0x55
	JUMP           = 0x56
	JUMPI          = 0x57
	PC             = 0x58
	MSIZE          = 0x59
	GAS            = 0x5a
	JUMPDEST       = 0x5b
	TLOAD          = 0x5c
	TSTORE         = 0x5d
	MCOPY          = 0x5e
	PUSH0          = 0x5f
	PUSH1          = 0x60
	PUSH2          = 0x61
	PUSH4          = 0x63
	PUSH20         = 0x73
	PUSH32         = 0x7f
	DUP1           = 0x80
	DUP2           = 0x81
	DUP3           = 0x82
	DUP16          = 0x8f
	SWAP1          = 0x90
	SWAP2          = 0x91
	SWAP16         = 0x9f
	LOG0           = 0xa0
	LOG4           = 0xa4
	DUPN           = 0xe6
	SWAPN          = 0xe7
	EXCHANGE       = 0xe8
	CREATE         = 0xf0
	CALL           = 0xf1
	CALLCODE       = 0xf2
	RETURN         = 0xf3
	DELEGATECALL   = 0xf4
	CREATE2        = 0xf5
	STATICCALL     = 0xfa
	REVERT         = 0xfd
	INVALID        = 0xfe
	SELFDESTRUCT   = 0xff
)

// OpInfo describes one opcode of proggen's own table.
type OpInfo struct {
	Code     byte
	Name     string
	Pops     int  // stack items required/consumed
	Pushes   int  // stack items produced
	Since    Fork // first rule set in which the opcode is defined
	Imm      int  // number of immediate bytes following the opcode
	Terminal bool // ends the frame when executed successfully (STOP, RETURN, REVERT, SELFDESTRUCT, INVALID)
	Defined  bool
}

var opTable [256]OpInfo

func def(code byte, name string, pops, pushes int, since Fork) {
	opTable[code] = OpInfo{Code: code, Name: name, Pops: pops, Pushes: pushes, Since: since, Defined: true}
}

func init() {
	for i, n := range []string{"STOP", "ADD", "MUL", "SUB", "DIV", "SDIV", "MOD", "SMOD", "ADDMOD", "MULMOD", "EXP", "SIGNEXTEND"} {
		pops := 2
		switch n {
		case "STOP":
			pops = 0
		case "ADDMOD", "MULMOD":
			pops = 3
		}
		push := 1
		if n == "STOP" {
			push = 0
		}
		def(byte(i), n, pops, push, Frontier)
	}
	for i, n := range []string{"LT", "GT", "SLT", "SGT", "EQ", "ISZERO", "AND", "OR", "XOR", "NOT", "BYTE"} {
		pops := 2
		if n == "ISZERO" || n == "NOT" {
			pops = 1
		}
		def(byte(0x10+i), n, pops, 1, Frontier)
	}
	def(SHL, "SHL", 2, 1, Constantinople)
	def(SHR, "SHR", 2, 1, Constantinople)
	def(SAR, "SAR", 2, 1, Constantinople)
	def(CLZ, "CLZ", 1, 1, Osaka)
	def(KECCAK256, "KECCAK256", 2, 1, Frontier)
	def(ADDRESS, "ADDRESS", 0, 1, Frontier)
	def(BALANCE, "BALANCE", 1, 1, Frontier)
	def(ORIGIN, "ORIGIN", 0, 1, Frontier)
	def(CALLER, "CALLER", 0, 1, Frontier)
	def(CALLVALUE, "CALLVALUE", 0, 1, Frontier)
	def(CALLDATALOAD, "CALLDATALOAD", 1, 1, Frontier)
	def(CALLDATASIZE, "CALLDATASIZE", 0, 1, Frontier)
	def(CALLDATACOPY, "CALLDATACOPY", 3, 0, Frontier)
	def(CODESIZE, "CODESIZE", 0, 1, Frontier)
	def(CODECOPY, "CODECOPY", 3, 0, Frontier)
	def(GASPRICE, "GASPRICE", 0, 1, Frontier)
	def(EXTCODESIZE, "EXTCODESIZE", 1, 1, Frontier)
	def(EXTCODECOPY, "EXTCODECOPY", 4, 0, Frontier)
	def(RETURNDATASIZE, "RETURNDATASIZE", 0, 1, Byzantium)
	def(RETURNDATACOPY, "RETURNDATACOPY", 3, 0, Byzantium)
	def(EXTCODEHASH, "EXTCODEHASH", 1, 1, Constantinople)
	def(BLOCKHASH, "BLOCKHASH", 1, 1, Frontier)
	def(COINBASE, "COINBASE", 0, 1, Frontier)
	def(TIMESTAMP, "TIMESTAMP", 0, 1, Frontier)
	def(NUMBER, "NUMBER", 0, 1, Frontier)
	def(PREVRANDAO, "PREVRANDAO", 0, 1, Frontier)
	def(GASLIMIT, "GASLIMIT", 0, 1, Frontier)
	def(CHAINID, "CHAINID", 0, 1, Istanbul)
	def(SELFBALANCE, "SELFBALANCE", 0, 1, Istanbul)
	def(BASEFEE, "BASEFEE", 0, 1, London)
	def(BLOBHASH, "BLOBHASH", 1, 1, Cancun)
	def(BLOBBASEFEE, "BLOBBASEFEE", 0, 1, Cancun)
	def(SLOTNUM, "SLOTNUM", 0, 1, Amsterdam)
	def(POP, "POP", 1, 0, Frontier)
	def(MLOAD, "MLOAD", 1, 1, Frontier)
	def(MSTORE, "MSTORE", 2, 0, Frontier)
	def(MSTORE8, "MSTORE8", 2, 0, Frontier)
	def(SLOAD, "SLOAD", 1, 1, Frontier)
	def(SSTORE, "SSTORE", 2, 0, Frontier)
	def(JUMP, "JUMP", 1, 0, Frontier)
	def(JUMPI, "JUMPI", 2, 0, Frontier)
	def(PC, "PC", 0, 1, Frontier)
	def(MSIZE, "MSIZE", 0, 1, Frontier)
	def(GAS, "GAS", 0, 1, Frontier)
	def(JUMPDEST, "JUMPDEST", 0, 0, Frontier)
	def(TLOAD, "TLOAD", 1, 1, Cancun)
	def(TSTORE, "TSTORE", 2, 0, Cancun)
	def(MCOPY, "MCOPY", 3, 0, Cancun)
	def(PUSH0, "PUSH0", 0, 1, Shanghai)
	for i := 1; i <= 32; i++ {
		def(byte(0x5f+i), "PUSH"+itoa(i), 0, 1, Frontier)
		opTable[0x5f+i].Imm = i
	}
	for i := 1; i <= 16; i++ {
		def(byte(0x7f+i), "DUP"+itoa(i), i, i+1, Frontier)
		def(byte(0x8f+i), "SWAP"+itoa(i), i+1, i+1, Frontier)
	}
	for i := 0; i <= 4; i++ {
		def(byte(0xa0+i), "LOG"+itoa(i), i+2, 0, Frontier)
	}
	// EIP-8024: the static stack requirement covers only the minimum; the operand decides.
	def(DUPN, "DUPN", 1, 2, Amsterdam)
	def(SWAPN, "SWAPN", 2, 2, Amsterdam)
	def(EXCHANGE, "EXCHANGE", 2, 2, Amsterdam)
	opTable[DUPN].Imm, opTable[SWAPN].Imm, opTable[EXCHANGE].Imm = 1, 1, 1
	def(CREATE, "CREATE", 3, 1, Frontier)
	def(CALL, "CALL", 7, 1, Frontier)
	def(CALLCODE, "CALLCODE", 7, 1, Frontier)
	def(RETURN, "RETURN", 2, 0, Frontier)
	def(DELEGATECALL, "DELEGATECALL", 6, 1, Homestead)
	def(CREATE2, "CREATE2", 4, 1, Constantinople)
	def(STATICCALL, "STATICCALL", 6, 1, Byzantium)
	def(REVERT, "REVERT", 2, 0, Byzantium)
	def(SELFDESTRUCT, "SELFDESTRUCT", 1, 0, Frontier)
	for _, c := range []byte{STOP, RETURN, REVERT, SELFDESTRUCT} {
		opTable[c].Terminal = true
	}
	// INVALID (0xfe) is the designated invalid instruction: never "defined".
	opTable[INVALID] = OpInfo{Code: INVALID, Name: "INVALID", Terminal: true}
}

func itoa(i int) string {
	if i < 10 {
		return string(rune('0' + i))
	}
	return string(rune('0'+i/10)) + string(rune('0'+i%10))
}

// Info returns proggen's table entry of an opcode (Defined=false for unassigned bytes).
func Info(op byte) OpInfo { return opTable[op] }

// Valid reports whether op is a defined instruction in rule set f.
func Valid(f Fork, op byte) bool { return opTable[op].Defined && opTable[op].Since <= f }

// Ops lists the opcodes defined in rule set f, ascending.
func Ops(f Fork) []OpInfo {
	var r []OpInfo
	for i := 0; i < 256; i++ {
		if Valid(f, byte(i)) {
			r = append(r, opTable[i])
		}
	}
	return r
}

// Precompiles returns the low bytes / addresses of the precompiled contracts active in f
// (as 20-byte big-endian values: 1..0x11 and 0x0100 for P256VERIFY).
func Precompiles(f Fork) []uint16 {
	var n int
	switch {
	case f >= Prague:
		n = 0x11
	case f >= Cancun:
		n = 0x0a
	case f >= Istanbul:
		n = 9
	case f >= Byzantium:
		n = 8
	default:
		n = 4
	}
	r := make([]uint16, 0, n+1)
	for i := 1; i <= n; i++ {
		r = append(r, uint16(i))
	}
	if f >= Osaka {
		r = append(r, 0x100)
	}
	return r
}

// EncodeSingle encodes a DUPN/SWAPN depth n in 17..235 as EIP-8024 immediate.
func EncodeSingle(n int) byte { return byte((n + 111) % 256) }

// EncodePair encodes an EXCHANGE pair (1 <= n < m, n+m <= 30) as EIP-8024 immediate.
func EncodePair(n, m int) byte {
	var q, r int
	if m <= 16 {
		q, r = n-1, m-1
	} else {
		q, r = 29-m, n-1
	}
	return byte(q*16+r) ^ 143
}
