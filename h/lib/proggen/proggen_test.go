package proggen

import (
	"bytes"
	"math/big"
	"math/rand"
	"testing"

	"github.com/ethereum/go-ethereum/common"
	"github.com/ethereum/go-ethereum/core/state"
	"github.com/ethereum/go-ethereum/core/tracing"
	"github.com/ethereum/go-ethereum/core/types"
	"github.com/ethereum/go-ethereum/core/vm"
	"github.com/ethereum/go-ethereum/core/vm/runtime"
	"github.com/ethereum/go-ethereum/params"
	"github.com/ethereum/go-ethereum/tests"
	"github.com/holiman/uint256"
)

var forkCfg = map[Fork]string{Frontier: "Frontier", Homestead: "Homestead", TangerineWhistle: "EIP150",
	SpuriousDragon: "EIP158", Byzantium: "Byzantium", Constantinople: "Constantinople", Petersburg: "ConstantinopleFix",
	Istanbul: "Istanbul", Berlin: "Berlin", London: "London", Paris: "Merge", Shanghai: "Shanghai", Cancun: "Cancun",
	Prague: "Prague", Osaka: "Osaka", Amsterdam: "Amsterdam"}

func rulesOf(t testing.TB, f Fork) (*params.ChainConfig, params.Rules) {
	cfg, ok := tests.Forks[forkCfg[f]]
	if !ok {
		t.Fatalf("no chain config for %v", f)
	}
	return cfg, cfg.Rules(big.NewInt(100), f >= Paris, 100)
}

// Sanity only: proggen's table is not derived from geth, but must agree with it.
func TestTableAgainstGeth(t *testing.T) {
	for _, f := range AllForks() {
		_, rules := rulesOf(t, f)
		jt, err := vm.LookupInstructionSet(rules)
		if err != nil {
			t.Fatal(err)
		}
		for i := 0; i < 256; i++ {
			op := jt[i]
			gethValid := op.HasCost() || i == STOP
			if gethValid != Valid(f, byte(i)) {
				t.Errorf("%v op %#x (%s): geth valid=%v proggen=%v", f, i, opTable[i].Name, gethValid, Valid(f, byte(i)))
				continue
			}
			if !gethValid {
				continue
			}
			mn, mx := op.Stack()
			info := opTable[i]
			if mn != info.Pops || mx != 1024+info.Pops-info.Pushes {
				t.Errorf("%v op %#x (%s): geth min/max %d/%d, proggen pops/pushes %d/%d", f, i, info.Name, mn, mx, info.Pops, info.Pushes)
			}
		}
		// precompiles
		act := vm.ActivePrecompiles(rules)
		mine := Precompiles(f)
		if len(act) != len(mine) {
			t.Errorf("%v precompiles: geth %d, proggen %d", f, len(act), len(mine))
		}
		for _, m := range mine {
			found := false
			for _, a := range act {
				if a == common.BytesToAddress([]byte{byte(m >> 8), byte(m)}) {
					found = true
				}
			}
			if !found {
				t.Errorf("%v precompile %#x not active in geth", f, m)
			}
		}
	}
}

func TestEncode8024(t *testing.T) {
	for n := 17; n <= 235; n++ {
		x := EncodeSingle(n)
		if x > 90 && x < 128 {
			t.Fatalf("EncodeSingle(%d)=%d in forbidden range", n, x)
		}
		if (int(x)+145)%256 != n {
			t.Fatalf("EncodeSingle(%d) does not round-trip", n)
		}
	}
	for n := 1; n <= 14; n++ {
		for m := n + 1; n+m <= 30; m++ {
			x := EncodePair(n, m)
			if x > 81 && x < 128 {
				t.Fatalf("EncodePair(%d,%d)=%d forbidden", n, m, x)
			}
			k := int(x ^ 143)
			q, r := k/16, k%16
			var dn, dm int
			if q < r {
				dn, dm = q+1, r+1
			} else {
				dn, dm = r+1, 29-q
			}
			if dn != n || dm != m {
				t.Fatalf("EncodePair(%d,%d) decodes to (%d,%d)", n, m, dn, dm)
			}
		}
	}
}

type covTracer struct {
	ops    [256]int
	faults int
	steps  int
}

func exec(t testing.TB, f Fork, code, input []byte, gas uint64, others map[common.Address][]byte, cov *covTracer) ([]byte, *state.StateDB, error) {
	cfg, _ := rulesOf(t, f)
	sdb, _ := state.New(types.EmptyRootHash, state.NewDatabaseForTesting())
	for a, c := range others {
		sdb.CreateAccount(a)
		sdb.SetCode(a, c, tracing.CodeChangeUnspecified)
		sdb.SetBalance(a, uint256.NewInt(1000), tracing.BalanceChangeUnspecified)
	}
	rc := &runtime.Config{ChainConfig: cfg, BlockNumber: big.NewInt(100), Time: 100, GasLimit: gas, State: sdb,
		Origin: common.HexToAddress("0xaa"), Difficulty: big.NewInt(1), Value: big.NewInt(0)}
	if f >= Paris {
		h := common.HexToHash("0x1234")
		rc.Random = &h
	}
	if cov != nil {
		rc.EVMConfig.Tracer = &tracing.Hooks{OnOpcode: func(pc uint64, op byte, gas, cost uint64, scope tracing.OpContext, rData []byte, depth int, err error) {
			cov.steps++
			if err == nil {
				cov.ops[op]++
			} else {
				cov.faults++
			}
		}}
	}
	// Not runtime.Execute: its setDefaults forces Random != nil, which turns every pre-merge
	// configuration into a hybrid (merge instruction set). Build the EVM directly instead.
	self := common.BytesToAddress([]byte("contract"))
	sdb.CreateAccount(self)
	sdb.SetCode(self, code, tracing.CodeChangeUnspecified)
	sdb.SetBalance(self, uint256.NewInt(1_000_000), tracing.BalanceChangeUnspecified)
	rc.GasPrice, rc.BaseFee, rc.BlobBaseFee = big.NewInt(0), big.NewInt(7), big.NewInt(1)
	rc.GetHashFn = func(n uint64) common.Hash { return common.BigToHash(new(big.Int).SetUint64(n + 1)) }
	evm := runtime.NewEnv(rc)
	rules := cfg.Rules(rc.BlockNumber, rc.Random != nil, rc.Time)
	sdb.Prepare(rules, rc.Origin, rc.Coinbase, &self, vm.ActivePrecompiles(rules), nil)
	ret, _, err := evm.Call(rc.Origin, self, input, vm.NewGasBudget(gas, 0), new(uint256.Int))
	return ret, sdb, err
}

// Generated programs execute without panics on every rule set, mostly run for a while, and
// together reach every opcode of the rule set.
func TestGenRunsEverywhere(t *testing.T) {
	others := map[common.Address][]byte{}
	var addrs []common.Address
	for i := 0; i < 4; i++ {
		a := common.BytesToAddress([]byte{0xc0, byte(i)})
		addrs = append(addrs, a)
	}
	for _, f := range AllForks() {
		rng := rand.New(rand.NewSource(int64(f) + 1))
		for i, a := range addrs {
			others[a] = Gen(rng, Opts{Fork: f.String(), MaxLen: 100, Mode: ModeStructured, Addrs: addrs[:i]}).Code
		}
		cov := &covTracer{}
		n := 1500
		long := 0
		for i := 0; i < n; i++ {
			p := Gen(rng, Opts{Fork: f.String(), Addrs: addrs, AllowGasDependent: i%2 == 0})
			input := make([]byte, rng.Intn(70))
			rng.Read(input)
			before := cov.steps
			exec(t, f, p.Code, input, 3_000_000, others, cov)
			if cov.steps-before >= 30 {
				long++
			}
			if !p.GasDependent && p.Kind == "structured" && p.Features["op:GAS"] {
				t.Fatalf("GAS in gas-independent program")
			}
		}
		if long < n/3 {
			t.Errorf("%v: only %d of %d programs executed >= 30 steps", f, long, n)
		}
		var missing []string
		for _, oi := range Ops(f) {
			if cov.ops[oi.Code] == 0 {
				missing = append(missing, oi.Name)
			}
		}
		if len(missing) > 0 {
			t.Errorf("%v: opcodes never executed successfully: %v", f, missing)
		}
		t.Logf("%v: steps=%d faults=%d long=%d/%d", f, cov.steps, cov.faults, long, n)
	}
}

func TestGasIndependentHasNoGasOpcode(t *testing.T) {
	rng := rand.New(rand.NewSource(7))
	for i := 0; i < 3000; i++ {
		p := Gen(rng, Opts{Fork: "Osaka", Mode: ModeStructured})
		if p.GasDependent {
			t.Fatalf("structured program without AllowGasDependent is flagged gas dependent: %v", p.Features)
		}
		// walk the code: GAS must not appear as an instruction in the main code part
		for pc := 0; pc < len(p.Code); pc++ {
			c := p.Code[pc]
			if c == GAS && !p.Features["create"] && !p.Features["junk"] && !p.Features["hostile"] {
				t.Fatalf("GAS opcode at %d in %x", pc, p.Code)
			}
			pc += opTable[c].Imm
		}
	}
}

func TestHelpers(t *testing.T) {
	for _, f := range AllForks() {
		// InitCodeReturning + ReturnConst
		want := []byte{1, 2, 3, 4, 5}
		ret, _, err := exec(t, f, ReturnConst(want), nil, 1_000_000, nil, nil)
		if err != nil || !bytes.Equal(ret, want) {
			t.Fatalf("%v ReturnConst: %x %v", f, ret, err)
		}
		// polluter and zero-memory probes
		pol := common.BytesToAddress([]byte{0xdd})
		others := map[common.Address][]byte{pol: Polluter(f, 4096, EndReturn)}
		for _, e := range []End{EndReturn, EndStop, EndRevert, EndInvalid, EndStackOverflow} {
			cov := &covTracer{}
			_, _, err := exec(t, f, Polluter(f, 16384, e), nil, 10_000_000, nil, cov)
			if (e == EndReturn || e == EndStop) && err != nil {
				t.Fatalf("%v polluter %v: %v", f, e, err)
			}
			if cov.ops[DUP1] < 1023 {
				t.Fatalf("%v polluter did not fill the stack", f)
			}
		}
		for v := 0; v < NumZeroMemProbes; v++ {
			ret, _, err := exec(t, f, ZeroMemProbe(f, v, 1000, &pol), nil, 10_000_000, others, nil)
			if err != nil || len(ret) < 1000 || len(bytes.Trim(ret, "\x00")) != 0 {
				t.Fatalf("%v zero probe %d: len %d err %v", f, v, len(ret), err)
			}
		}
		// wrapper around a callee that returns a constant and writes storage
		callee := common.BytesToAddress([]byte{0xee})
		ca := NewAsm()
		ca.Push(7).Push(3).Op(SSTORE)
		ca.Push(0xabcd).Push(0).Op(MSTORE).Push(32).Push(0).Op(RETURN)
		others[callee] = ca.Bytes()
		for _, op := range []byte{CALL, CALLCODE, DELEGATECALL, STATICCALL} {
			if !Valid(f, op) {
				continue
			}
			self := common.BytesToAddress([]byte("contract"))
			probe := ProbeSuffix(f, Probe{Addrs: []common.Address{callee}, Slots: []uint64{3}, TSlots: []uint64{1}, Base: 0x100})
			w := Wrapper(op, callee, WrapOpts{StoreFlag: true, FlagSlot: 9, Suffix: probe, OutSize: 32, Gas: uint256.NewInt(200000)})
			ret, sdb, err := exec(t, f, w, nil, 10_000_000, others, nil)
			if err != nil {
				t.Fatalf("%v wrapper %x: %v", f, op, err)
			}
			flag := sdb.GetState(self, common.BigToHash(big.NewInt(9))).Big().Uint64()
			wantFlag := uint64(1)
			if op == STATICCALL {
				wantFlag = 0 // SSTORE in static context
			}
			if flag != wantFlag {
				t.Fatalf("%v wrapper %x: flag %d", f, op, flag)
			}
			if wantFlag == 1 && new(big.Int).SetBytes(ret).Uint64() != 0xabcd {
				t.Fatalf("%v wrapper %x: ret %x", f, op, ret)
			}
			// slot 3 value as seen by the probe: written in own storage for CALLCODE/DELEGATECALL
			got := sdb.GetState(self, common.BigToHash(big.NewInt(0x100+3))).Big().Uint64()
			wantV := uint64(0)
			if op == CALLCODE || op == DELEGATECALL {
				wantV = 7
			}
			if got != wantV {
				t.Fatalf("%v wrapper %x: probe slot value %d want %d", f, op, got, wantV)
			}
		}
		// create wrappers
		for _, op := range []byte{CREATE, CREATE2} {
			if !Valid(f, op) {
				continue
			}
			w := CreateWrapper(op, InitCodeReturning([]byte{PUSH1, 0, STOP}), WrapOpts{StoreFlag: true, FlagSlot: 9, Salt: 5})
			_, sdb, err := exec(t, f, w, nil, 10_000_000, nil, nil)
			if err != nil || sdb.GetState(common.BytesToAddress([]byte("contract")), common.BigToHash(big.NewInt(9))).Big().Uint64() != 1 {
				t.Fatalf("%v create wrapper %x: %v", f, op, err)
			}
		}
		// precompile call: identity
		in := []byte("hello world")
		ret, _, err = exec(t, f, PrecompileCall(f, CALL, 4, in, len(in)), nil, 1_000_000, nil, nil)
		if err != nil || len(ret) != 32+len(in) || ret[31] != 1 || !bytes.Equal(ret[32:], in) {
			t.Fatalf("%v precompile call: %x %v", f, ret, err)
		}
		// jump heavy
		rng := rand.New(rand.NewSource(3))
		jh := JumpHeavy(rng, 20, []byte{PUSH32, JUMPDEST})
		ret, _, err = exec(t, f, jh, nil, 1_000_000, nil, nil)
		if err != nil || len(ret) != 32 {
			t.Fatalf("%v jumpheavy: %x %v", f, ret, err)
		}
	}
}
