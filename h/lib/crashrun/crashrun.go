// Package crashrun is the shared skeleton of the crash-point checks (C25, C39, …): record a
// workload child under strace, interpret the syscall journal (lib/sysjournal) and the
// key-value operation markers (lib/kvrec), pick crash positions, build kill / power-loss crash
// states and have them judged by reopen children in batches, attributing a child's death to
// the state it was working on.
package crashrun

import (
	"bytes"
	"encoding/json"
	"fmt"
	"math/rand"
	"os"
	"os/exec"
	"path/filepath"
	"sort"
	"strings"
	"time"

	"verif/lib/sysjournal"
	"verif/lib/vrt"
)

// Pos describes one crash position.
type Pos struct {
	Event  int      // index into the parsed journal
	Line   int      // journal line
	What   string   // syscall name or "kvop"
	Marks  []string // workload marker lines seen so far (without the KV/KVSYNC ones)
	KVAt   uint64   // key-value operations applied so far
	SyncAt uint64   // key-value operations covered by the last SyncKeyValue
}

// Job is one crash state to be judged.
type Job struct {
	Pos    Pos
	Model  string // kill | power
	KVN    uint64 // surviving key-value prefix
	Desc   string
	Expect any    // written as expect.json next to the materialised files (dir/root)
	Sig    string // evidence signature prefix
	State  sysjournal.CrashState
}

// Spec configures one recorded history.
type Spec struct {
	R            *vrt.Run
	Hi           int
	Base         string   // scratch dir of this history (removed by the caller)
	Root         string   // tracked directory (files below it are modelled)
	Marks        string   // marker file
	WorkloadMode string   // registered child mode
	WorkloadEnv  []string // its environment
	ReopenMode   string   // registered child mode; gets <PREFIX>_LIST
	ListEnv      string   // name of the env var carrying the list file
	PosPer       int      // positions to sample (<=0: all)
	NRandom      int      // random power variants per position
	Rng          *rand.Rand
	// Window returns true for marks that open/close the window in which crash positions are
	// taken: positions are used only while inWindow is true. nil = between START and END.
	Window func(mark string, inWindow bool) bool
	// Prefer, when set, marks positions that are sampled first (up to half of PosPer): it gets
	// the most recent workload mark before the position and the kind of event at the position.
	Prefer func(lastMark, what string) bool
	// Build turns a (position, crash state, surviving kv prefix, model) into a job's Expect and
	// Sig; returning nil skips the state.
	Build func(p Pos, cs sysjournal.CrashState, kvn uint64, model string) (expect any, sig string)
	// Judge receives the reopen child's JSON verdict for a job.
	Judge func(j *Job, verdict json.RawMessage)
	// Died is called when the reopen child died while working on j.
	Died func(j *Job, exit int, signal string, output []byte)
}

// Stats of a run.
type Stats struct {
	Events, Positions, States, KVOps, KVSyncs int
}

// Run executes the whole pipeline for one history. It returns false if the history had to be
// abandoned (an Inconclusive or Violation has been recorded on R).
func Run(s *Spec, workloadFailed func(exit int, out []byte)) (Stats, bool) {
	var st Stats
	r := s.R
	journal := filepath.Join(s.Base, "journal.txt")
	cr := r.Child(s.WorkloadMode, s.WorkloadEnv, 15*time.Minute, sysjournal.StracePrefix(journal, 1<<21)...)
	if cr.TimedOut {
		r.Inconclusive("history %d: workload watchdog", s.Hi)
		return st, false
	}
	if cr.Exit != 0 {
		workloadFailed(cr.Exit, cr.Output)
		return st, false
	}
	evs, err := sysjournal.Parse(journal)
	if err != nil {
		r.Inconclusive("history %d: journal parse: %v", s.Hi, err)
		return st, false
	}
	st.Events = len(evs)
	fs := sysjournal.NewFS(s.Root, s.Marks)
	what := map[int]string{}
	for i, ev := range evs {
		if info := fs.Step(i, ev); info.Mutating {
			what[i] = ev.Name
		}
	}
	if err := fs.SelfCheck(); err != nil {
		r.Inconclusive("history %d: journal self-check failed: %v", s.Hi, err)
		return st, false
	}
	r.Count("journals_selfchecked", 1)
	// marks by event index
	type mk struct {
		pos  int
		text string
	}
	var marks []mk
	type kvm struct {
		pos int
		seq uint64
	}
	var kvs, syncs []kvm
	for _, m := range fs.Marks {
		var q uint64
		switch {
		case strings.HasPrefix(m.Text, "KVSYNC "):
			fmt.Sscanf(m.Text, "KVSYNC %d", &q)
			syncs = append(syncs, kvm{m.Pos, q})
		case strings.HasPrefix(m.Text, "KV "):
			fmt.Sscanf(m.Text, "KV %d", &q)
			kvs = append(kvs, kvm{m.Pos, q})
			what[m.Pos] = "kvop"
		default:
			marks = append(marks, mk{m.Pos, m.Text})
		}
	}
	st.KVOps, st.KVSyncs = len(kvs), len(syncs)
	// window
	window := s.Window
	if window == nil {
		window = func(m string, in bool) bool {
			switch m {
			case "START":
				return true
			case "END":
				return false
			}
			return in
		}
	}
	inWin := make([]bool, len(evs)+1)
	{
		mi, in := 0, false
		for i := range evs {
			for mi < len(marks) && marks[mi].pos <= i {
				in = window(marks[mi].text, in)
				mi++
			}
			inWin[i] = in
		}
	}
	var cands []int
	for p := range what {
		if inWin[p] {
			cands = append(cands, p)
		}
	}
	sort.Ints(cands)
	chosen := map[int]bool{}
	if s.PosPer <= 0 || len(cands) <= s.PosPer {
		for _, c := range cands {
			chosen[c] = true
		}
	} else {
		var special []int
		for _, c := range cands {
			switch what[c] {
			case "ftruncate", "renameat", "renameat2", "rename", "unlinkat", "unlink", "kvop", "fsync", "fdatasync":
				special = append(special, c)
			}
		}
		if s.Prefer != nil {
			var pref []int
			mi, last := 0, ""
			for _, c := range cands {
				for mi < len(marks) && marks[mi].pos <= c {
					last = marks[mi].text
					mi++
				}
				if s.Prefer(last, what[c]) {
					pref = append(pref, c)
				}
			}
			s.Rng.Shuffle(len(pref), func(i, j int) { pref[i], pref[j] = pref[j], pref[i] })
			for _, c := range pref {
				if len(chosen) >= s.PosPer/2 {
					break
				}
				chosen[c] = true
			}
			r.Count("crash_positions_preferred", len(chosen))
		}
		s.Rng.Shuffle(len(special), func(i, j int) { special[i], special[j] = special[j], special[i] })
		for _, c := range special {
			if len(chosen) >= s.PosPer*5/6 {
				break
			}
			chosen[c] = true
		}
		for len(chosen) < s.PosPer {
			chosen[cands[s.Rng.Intn(len(cands))]] = true
		}
	}
	st.Positions = len(chosen)
	// build jobs
	var jobs []*Job
	seen := map[string]bool{}
	fs2 := sysjournal.NewFS(s.Root, s.Marks)
	var seenMarks []string
	mi := 0
	for i, ev := range evs {
		fs2.Step(i, ev)
		for mi < len(marks) && marks[mi].pos <= i {
			seenMarks = append(seenMarks, marks[mi].text)
			mi++
		}
		if !chosen[i] {
			continue
		}
		p := Pos{Event: i, Line: ev.Line, What: what[i], Marks: append([]string{}, seenMarks...)}
		for _, k := range kvs {
			if k.pos <= i {
				p.KVAt = k.seq
			}
		}
		for _, k := range syncs {
			if k.pos <= i {
				p.SyncAt = k.seq
			}
		}
		add := func(cs sysjournal.CrashState, kvn uint64, model string) {
			key := fmt.Sprintf("%x|%d|%d", cs.Hash(), kvn, len(p.Marks))
			if seen[key] {
				return
			}
			seen[key] = true
			exp, sig := s.Build(p, cs, kvn, model)
			if exp == nil {
				return
			}
			jobs = append(jobs, &Job{Pos: p, Model: model, KVN: kvn, Expect: exp, Sig: sig, State: cs,
				Desc: fmt.Sprintf("after journal line %d (%s): files %s, key-value log prefix %d of %d (last sync %d)", ev.Line, what[i], cs.Desc, kvn, p.KVAt, p.SyncAt)})
		}
		kill := fs2.KillState()
		add(kill, p.KVAt, "kill")
		pick := func() uint64 {
			if p.KVAt <= p.SyncAt {
				return p.KVAt
			}
			switch s.Rng.Intn(3) {
			case 0:
				return p.SyncAt
			case 1:
				return p.KVAt
			}
			return p.SyncAt + uint64(s.Rng.Int63n(int64(p.KVAt-p.SyncAt)+1))
		}
		if p.KVAt > p.SyncAt {
			pk := kill
			pk.Model, pk.Desc = "power", "all current"
			add(pk, p.SyncAt, "power")
			add(pk, pick(), "power")
		}
		for _, cs := range fs2.PowerStates(s.Rng, s.NRandom) {
			add(cs, pick(), "power")
		}
	}
	st.States = len(jobs)
	// judge in batches
	sdir := filepath.Join(s.Base, "states")
	const batch = 48
	for b0 := 0; b0 < len(jobs); b0 += batch {
		b1 := b0 + batch
		if b1 > len(jobs) {
			b1 = len(jobs)
		}
		type pj struct {
			j   *Job
			dir string
		}
		var pending []pj
		for k, j := range jobs[b0:b1] {
			pending = append(pending, pj{j, filepath.Join(sdir, fmt.Sprintf("s%d", b0+k))})
		}
		for len(pending) > 0 {
			var list bytes.Buffer
			for _, x := range pending {
				if err := x.j.State.Materialize(filepath.Join(x.dir, "root")); err != nil {
					r.Inconclusive("materialize: %v", err)
					return st, false
				}
				eb, _ := json.Marshal(map[string]any{"expect": x.j.Expect, "kv_n": x.j.KVN, "model": x.j.Model, "desc": x.j.Desc})
				os.WriteFile(filepath.Join(x.dir, "expect.json"), eb, 0o644)
				list.WriteString(x.dir + "\n")
			}
			lpath := filepath.Join(s.Base, "list.txt")
			os.WriteFile(lpath, list.Bytes(), 0o644)
			r.Case("history %d: reopen batch starting with %s", s.Hi, pending[0].j.Desc)
			cr := r.Child(s.ReopenMode, []string{s.ListEnv + "=" + lpath}, 20*time.Minute)
			results := map[string]json.RawMessage{}
			begun := ""
			for _, line := range strings.Split(string(cr.Output), "\n") {
				if strings.HasPrefix(line, "BEGIN ") {
					begun = strings.TrimPrefix(line, "BEGIN ")
				} else if strings.HasPrefix(line, "RESULT ") {
					rest := strings.TrimPrefix(line, "RESULT ")
					if sp := strings.IndexByte(rest, ' '); sp > 0 {
						results[rest[:sp]] = json.RawMessage(rest[sp+1:])
						if rest[:sp] == begun {
							begun = ""
						}
					}
				}
			}
			var next []pj
			died := false
			for _, x := range pending {
				v, ok := results[x.dir]
				switch {
				case ok:
					s.Judge(x.j, v)
					if keep := os.Getenv("VERIF_KEEP"); keep != "" && bytes.Contains(v, []byte(`"ok":false`)) {
						dst := filepath.Join(keep, fmt.Sprintf("h%d-%s", s.Hi, filepath.Base(x.dir)))
						os.MkdirAll(keep, 0o755)
						// pristine copy: the judged directory has been modified by the reopen
						x.j.State.Materialize(filepath.Join(dst, "root"))
						exec.Command("sh", "-c", "cp "+x.dir+"/expect.json "+s.Base+"/oplog "+s.Base+"/plan.json "+dst+"/ 2>/dev/null").Run()
					}
					os.RemoveAll(x.dir)
				case x.dir == begun && !died:
					died = true
					if cr.TimedOut {
						r.Inconclusive("history %d: reopen child watchdog on %s", s.Hi, x.j.Desc)
					} else {
						s.Died(x.j, cr.Exit, cr.Signal, cr.Output)
					}
					os.RemoveAll(x.dir)
				default:
					next = append(next, x)
				}
			}
			if len(next) == len(pending) {
				r.Inconclusive("history %d: reopen child made no progress (exit %d): %s", s.Hi, cr.Exit, Tail(cr.Output, 400))
				return st, false
			}
			pending = next
		}
	}
	return st, true
}

// ReopenLoop is the body of a reopen child: for every directory of the list file it prints
// BEGIN, calls check(dir) and prints the JSON verdict.
func ReopenLoop(listEnv string, check func(dir string) any) {
	b, err := os.ReadFile(os.Getenv(listEnv))
	if err != nil {
		os.Exit(4)
	}
	for _, dir := range strings.Split(string(b), "\n") {
		if dir == "" {
			continue
		}
		fmt.Printf("BEGIN %s\n", dir)
		v := check(dir)
		out, _ := json.Marshal(v)
		fmt.Printf("RESULT %s %s\n", dir, out)
	}
}

// CritSite extracts a stable site name from a dead child's output.
func CritSite(out []byte) string {
	s := string(out)
	for _, l := range strings.Split(s, "\n") {
		if strings.Contains(l, "CRIT") {
			i := strings.Index(l, "]")
			msg := strings.TrimSpace(l[i+1:])
			if j := strings.Index(msg, "  "); j > 0 {
				msg = msg[:j]
			}
			return "crit:" + strings.ReplaceAll(msg, " ", "-")
		}
	}
	if i := strings.Index(s, "panic:"); i >= 0 {
		return "panic:" + vrt.PanicSite(s[i:])
	}
	if strings.Contains(s, "fatal error:") {
		return "fatal"
	}
	return "exit"
}

// Tail returns the last n bytes as a string.
func Tail(b []byte, n int) string {
	if len(b) > n {
		b = b[len(b)-n:]
	}
	return string(b)
}

// FilesHex renders a crash state's files for a witness.
func FilesHex(cs sysjournal.CrashState) map[string]string {
	m := map[string]string{}
	for p, b := range cs.Files {
		if len(b) > 1<<16 {
			m[p] = fmt.Sprintf("(%d bytes)", len(b))
			continue
		}
		m[p] = vrt.Hex(b)
	}
	return m
}
