package refhash

import (
	"encoding/hex"
	"testing"
)

func TestKeccakVectors(t *testing.T) {
	h := Keccak256(nil)
	if hex.EncodeToString(h[:]) != "c5d2460186f7233c927e7db2dcc703c0e500b653ca82273b7bfad8045d85a470" {
		t.Fatalf("empty: %x", h)
	}
	h = Keccak256([]byte("abc"))
	if hex.EncodeToString(h[:]) != "4e03657aea45a94fc7d47ba826c8d667c0d1e6e33a64a036ec44f58fa12d6c45" {
		t.Fatalf("abc: %x", h)
	}
	if keccakRC[0] != 1 || keccakRC[1] != 0x8082 || keccakRC[23] != 0x8000000080008008 {
		t.Fatalf("rc %x", keccakRC)
	}
	// SHA3-256("") with the 0x06 domain byte
	s := KeccakSponge(136, 0x06, nil, 32)
	if hex.EncodeToString(s) != "a7ffc6f8bf1ed76651c14756a061d662f580ff4de43b49fa82d80a4b80f8434a" {
		t.Fatalf("sha3: %x", s)
	}
}

func TestBlake2bF(t *testing.T) {
	// EIP-152 test vector 5 (12 rounds, "abc", final)
	h := [8]uint64{0x6a09e667f2bdc948, 0xbb67ae8584caa73b, 0x3c6ef372fe94f82b, 0xa54ff53a5f1d36f1, 0x510e527fade682d1, 0x9b05688c2b3e6c1f, 0x1f83d9abfb41bd6b, 0x5be0cd19137e2179}
	var m [16]uint64
	m[0] = 0x636261
	Blake2bF(&h, &m, [2]uint64{3, 0}, true, 12)
	// BLAKE2b-512("abc") first word ba80a53f981c4d0d little endian
	if h[0] != 0x0d4d1c983fa580ba {
		t.Fatalf("h0 %x", h[0])
	}
}
