// Package refhash holds plain-Go reference implementations written from the specifications,
// used as the independent voice in the N-version checks C04 (Keccak) and C05 (BLAKE2b F).
//
//   - Keccak-f[1600] and the sponge with the legacy Keccak padding (domain byte 0x01, i.e.
//     pad10*1 without the SHA-3 suffix bits), FIPS-202 sections 3.2-3.4 and 4. Round constants
//     and rotation offsets are *computed* from their defining recurrences (rc(t) LFSR,
//     (x,y) -> (y, 2x+3y) walk) instead of being transcribed tables.
//   - BLAKE2b compression function F, RFC 7693 section 3.2, with a free round count as in
//     EIP-152 (round i uses SIGMA[i mod 10]).
//
// Nothing here shares code with go-ethereum or golang.org/x/crypto. Clarity over speed.
package refhash

import "encoding/binary"

// ---------------------------------------------------------------------------------------
// Keccak

var (
	keccakRC  [24]uint64
	keccakRot [5][5]uint // [x][y]
)

func init() {
	// FIPS-202 algorithm 5: rc(t) is the output of the LFSR x^8+x^6+x^5+x^4+1.
	rc := func(t int) uint64 {
		t %= 255
		if t < 0 {
			t += 255
		}
		if t == 0 {
			return 1
		}
		R8 := [8]byte{1, 0, 0, 0, 0, 0, 0, 0} // R = 10000000
		for i := 1; i <= t; i++ {
			// R = 0 || R
			var n [9]byte
			copy(n[1:], R8[:])
			n[0] ^= n[8]
			n[4] ^= n[8]
			n[5] ^= n[8]
			n[6] ^= n[8]
			copy(R8[:], n[:8])
		}
		return uint64(R8[0])
	}
	// algorithm 6 (iota): RC[2^j - 1] = rc(j + 7 ir)
	for ir := 0; ir < 24; ir++ {
		var v uint64
		for j := 0; j <= 6; j++ {
			if rc(j+7*ir) == 1 {
				v |= 1 << (uint(1)<<uint(j) - 1)
			}
		}
		keccakRC[ir] = v
	}
	// algorithm 2 (rho): offsets (t+1)(t+2)/2 along the walk (x,y) -> (y, (2x+3y) mod 5)
	x, y := 1, 0
	for t := 0; t < 24; t++ {
		keccakRot[x][y] = uint(((t + 1) * (t + 2) / 2) % 64)
		x, y = y, (2*x+3*y)%5
	}
}

func rotl(v uint64, n uint) uint64 {
	n %= 64
	if n == 0 {
		return v
	}
	return v<<n | v>>(64-n)
}

// KeccakF1600 applies the 24-round permutation to the state; lane (x,y) is a[x+5y].
func KeccakF1600(a *[25]uint64) {
	for round := 0; round < 24; round++ {
		// theta
		var C, D [5]uint64
		for x := 0; x < 5; x++ {
			C[x] = a[x] ^ a[x+5] ^ a[x+10] ^ a[x+15] ^ a[x+20]
		}
		for x := 0; x < 5; x++ {
			D[x] = C[(x+4)%5] ^ rotl(C[(x+1)%5], 1)
		}
		for x := 0; x < 5; x++ {
			for y := 0; y < 5; y++ {
				a[x+5*y] ^= D[x]
			}
		}
		// rho and pi: B[y][2x+3y] = rot(A[x][y])
		var B [25]uint64
		for x := 0; x < 5; x++ {
			for y := 0; y < 5; y++ {
				B[y+5*((2*x+3*y)%5)] = rotl(a[x+5*y], keccakRot[x][y])
			}
		}
		// chi
		for x := 0; x < 5; x++ {
			for y := 0; y < 5; y++ {
				a[x+5*y] = B[x+5*y] ^ (^B[(x+1)%5+5*y] & B[(x+2)%5+5*y])
			}
		}
		// iota
		a[0] ^= keccakRC[round]
	}
}

// KeccakSponge absorbs msg with the given rate (bytes) and domain/padding byte and
// squeezes outLen bytes. Whole-message, no incremental state: pad first, then absorb.
func KeccakSponge(rate int, dsbyte byte, msg []byte, outLen int) []byte {
	// pad10*1 with the domain bits merged into the first padding byte
	padded := append([]byte{}, msg...)
	padLen := rate - len(msg)%rate // 1..rate
	pad := make([]byte, padLen)
	pad[0] ^= dsbyte
	pad[padLen-1] ^= 0x80
	padded = append(padded, pad...)
	var a [25]uint64
	for off := 0; off < len(padded); off += rate {
		blk := padded[off : off+rate]
		for i := 0; i < rate/8; i++ {
			a[i] ^= binary.LittleEndian.Uint64(blk[8*i:])
		}
		KeccakF1600(&a)
	}
	out := make([]byte, 0, outLen+rate)
	for {
		var buf [200]byte
		for i := 0; i < 25; i++ {
			binary.LittleEndian.PutUint64(buf[8*i:], a[i])
		}
		out = append(out, buf[:rate]...)
		if len(out) >= outLen {
			return out[:outLen]
		}
		KeccakF1600(&a)
	}
}

// Keccak256 is legacy Keccak-256 (rate 136, padding byte 0x01, 32 bytes of output).
func Keccak256(msg []byte) (h [32]byte) {
	copy(h[:], KeccakSponge(136, 0x01, msg, 32))
	return
}

// Keccak256Squeeze returns the first n bytes of the legacy Keccak-256 sponge output.
func Keccak256Squeeze(msg []byte, n int) []byte { return KeccakSponge(136, 0x01, msg, n) }

// ---------------------------------------------------------------------------------------
// BLAKE2b F (RFC 7693)

var blake2bIV = [8]uint64{
	0x6a09e667f3bcc908, 0xbb67ae8584caa73b, 0x3c6ef372fe94f82b, 0xa54ff53a5f1d36f1,
	0x510e527fade682d1, 0x9b05688c2b3e6c1f, 0x1f83d9abfb41bd6b, 0x5be0cd19137e2179,
}

var blake2bSigma = [10][16]int{
	{0, 1, 2, 3, 4, 5, 6, 7, 8, 9, 10, 11, 12, 13, 14, 15},
	{14, 10, 4, 8, 9, 15, 13, 6, 1, 12, 0, 2, 11, 7, 5, 3},
	{11, 8, 12, 0, 5, 2, 15, 13, 10, 14, 3, 6, 7, 1, 9, 4},
	{7, 9, 3, 1, 13, 12, 11, 14, 2, 6, 5, 10, 4, 0, 15, 8},
	{9, 0, 5, 7, 2, 4, 10, 15, 14, 1, 11, 12, 6, 8, 3, 13},
	{2, 12, 6, 10, 0, 11, 8, 3, 4, 13, 7, 5, 15, 14, 1, 9},
	{12, 5, 1, 15, 14, 13, 4, 10, 0, 7, 6, 3, 9, 2, 8, 11},
	{13, 11, 7, 14, 12, 1, 3, 9, 5, 0, 15, 4, 8, 6, 2, 10},
	{6, 15, 14, 9, 11, 3, 0, 8, 12, 2, 13, 7, 1, 4, 10, 5},
	{10, 2, 8, 4, 7, 6, 1, 5, 15, 11, 9, 14, 3, 12, 13, 0},
}

func rotr(v uint64, n uint) uint64 { return v>>n | v<<(64-n) }

// Blake2bF is the compression function: h is updated in place; t is the 128-bit offset
// counter (t[0] low word), final the last-block flag, rounds the number of rounds.
func Blake2bF(h *[8]uint64, m *[16]uint64, t [2]uint64, final bool, rounds uint32) {
	var v [16]uint64
	copy(v[:8], h[:])
	copy(v[8:], blake2bIV[:])
	v[12] ^= t[0]
	v[13] ^= t[1]
	if final {
		v[14] = ^v[14]
	}
	G := func(a, b, c, d int, x, y uint64) {
		v[a] = v[a] + v[b] + x
		v[d] = rotr(v[d]^v[a], 32)
		v[c] = v[c] + v[d]
		v[b] = rotr(v[b]^v[c], 24)
		v[a] = v[a] + v[b] + y
		v[d] = rotr(v[d]^v[a], 16)
		v[c] = v[c] + v[d]
		v[b] = rotr(v[b]^v[c], 63)
	}
	for i := uint32(0); i < rounds; i++ {
		s := &blake2bSigma[i%10]
		G(0, 4, 8, 12, m[s[0]], m[s[1]])
		G(1, 5, 9, 13, m[s[2]], m[s[3]])
		G(2, 6, 10, 14, m[s[4]], m[s[5]])
		G(3, 7, 11, 15, m[s[6]], m[s[7]])
		G(0, 5, 10, 15, m[s[8]], m[s[9]])
		G(1, 6, 11, 12, m[s[10]], m[s[11]])
		G(2, 7, 8, 13, m[s[12]], m[s[13]])
		G(3, 4, 9, 14, m[s[14]], m[s[15]])
	}
	for i := 0; i < 8; i++ {
		h[i] ^= v[i] ^ v[i+8]
	}
}
