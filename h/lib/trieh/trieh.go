// Package trieh holds what the trie-package harnesses (C06..C09) share: a path-keyed
// shadow node store usable as the trie's node database, key/value space generators that
// provoke shared prefixes, collapses and embedded nodes, and small helpers.
package trieh

import (
	"bytes"
	"errors"
	"fmt"
	"math/rand"
	"sort"
	"sync"
	"sync/atomic"

	"github.com/ethereum/go-ethereum/common"
	"github.com/ethereum/go-ethereum/trie/trienode"
	"github.com/ethereum/go-ethereum/triedb/database"

	"verif/lib/refmpt"
)

// ---------------------------------------------------------------------------------------
// Store: the harness's own node database (one trie, owner = zero hash)
// ---------------------------------------------------------------------------------------

// Store is a path-keyed node store (path = one byte per nibble) - the model of a
// path-scheme database for a single trie. It implements database.NodeDatabase; a read
// returns the blob at the path only if its Keccak equals the requested hash (a stale or
// foreign node at that path is reported as an error, like pathdb does).
type Store struct {
	mu    sync.RWMutex
	m     map[string][]byte
	Reads atomic.Int64 // successful node reads (hash-node resolutions)
	Bad   atomic.Int64 // reads that found nothing or a blob with another hash
}

func NewStore() *Store { return &Store{m: map[string][]byte{}} }

func (s *Store) NodeReader(common.Hash) (database.NodeReader, error) { return s, nil }

func (s *Store) Node(owner common.Hash, path []byte, hash common.Hash) ([]byte, error) {
	s.mu.RLock()
	b, ok := s.m[string(path)]
	s.mu.RUnlock()
	if !ok {
		s.Bad.Add(1)
		return nil, nil
	}
	if !bytes.Equal(refmpt.Keccak(b), hash[:]) {
		s.Bad.Add(1)
		return nil, fmt.Errorf("store: node at path %x has hash %x, want %x", path, refmpt.Keccak(b), hash)
	}
	s.Reads.Add(1)
	return b, nil
}

// Snapshot returns a copy of the content.
func (s *Store) Snapshot() map[string][]byte {
	s.mu.RLock()
	defer s.mu.RUnlock()
	m := make(map[string][]byte, len(s.m))
	for k, v := range s.m {
		m[k] = v
	}
	return m
}

// Clone returns an independent store with the same content.
func (s *Store) Clone() *Store { return &Store{m: s.Snapshot()} }

func (s *Store) Len() int { s.mu.RLock(); defer s.mu.RUnlock(); return len(s.m) }

// OriginMismatch describes a NodeSet entry whose recorded previous value differs from the
// store content before the set was applied.
type OriginMismatch struct {
	Path         string
	Have, Stored []byte
}

// Apply applies a committed node set (nil = nothing) and returns, for every entry, whether
// the recorded origin equals the previous content at that path (nil when absent).
func (s *Store) Apply(set *trienode.NodeSet) (writes, deletes, phantomDeletes int, bad []OriginMismatch) {
	if set == nil {
		return
	}
	s.mu.Lock()
	defer s.mu.Unlock()
	for path, n := range set.Nodes {
		prev, had := s.m[path]
		org := set.Origins[path]
		if !bytes.Equal(org, prev) || (had && len(org) == 0) {
			bad = append(bad, OriginMismatch{Path: path, Have: org, Stored: prev})
		}
		if n.IsDeleted() {
			deletes++
			if !had {
				phantomDeletes++
			}
			delete(s.m, path)
		} else {
			writes++
			s.m[path] = common.CopyBytes(n.Blob)
		}
	}
	return
}

// DiffStores lists paths at which two path-keyed node sets differ (max n entries).
func DiffStores(have, want map[string][]byte, n int) (missing, stale, wrong []string) {
	for p, b := range want {
		hb, ok := have[p]
		if !ok {
			if len(missing) < n {
				missing = append(missing, fmt.Sprintf("%x", p))
			}
		} else if !bytes.Equal(hb, b) {
			if len(wrong) < n {
				wrong = append(wrong, fmt.Sprintf("%x", p))
			}
		}
	}
	for p := range have {
		if _, ok := want[p]; !ok && len(stale) < n {
			stale = append(stale, fmt.Sprintf("%x", p))
		}
	}
	sort.Strings(missing)
	sort.Strings(stale)
	sort.Strings(wrong)
	return
}

// HashStore is a hash-keyed, append-only node store (model of the hash scheme).
type HashStore struct {
	mu sync.RWMutex
	m  map[common.Hash][]byte
}

func NewHashStore() *HashStore { return &HashStore{m: map[common.Hash][]byte{}} }

func (s *HashStore) NodeReader(common.Hash) (database.NodeReader, error) { return s, nil }
func (s *HashStore) Node(owner common.Hash, path []byte, hash common.Hash) ([]byte, error) {
	s.mu.RLock()
	defer s.mu.RUnlock()
	return s.m[hash], nil
}
func (s *HashStore) Apply(set *trienode.NodeSet) {
	if set == nil {
		return
	}
	s.mu.Lock()
	defer s.mu.Unlock()
	for _, n := range set.Nodes {
		if !n.IsDeleted() {
			s.m[n.Hash] = common.CopyBytes(n.Blob)
		}
	}
}

var ErrNotFound = errors.New("not found")

// ---------------------------------------------------------------------------------------
// Key and value spaces
// ---------------------------------------------------------------------------------------

// Space is a finite pool of keys a history draws from, plus a value generator.
type Space struct {
	Name       string
	Keys       [][]byte
	PrefixFree bool // no key is a proper prefix of another and no empty key
	FixedLen   int  // >0 if all keys have this length
	ValClass   string
	vals       [][]byte
}

// value length classes: "tiny" (1..4 bytes: leaves embed into parents), "edge" (around
// the 32-byte node threshold), "long" (33..120), "mixed".
func genValue(rng *rand.Rand, class string) []byte {
	var n int
	switch class {
	case "tiny":
		n = 1 + rng.Intn(4)
	case "edge":
		n = 20 + rng.Intn(16)
	case "long":
		n = 33 + rng.Intn(90)
	default:
		switch rng.Intn(4) {
		case 0:
			n = 1 + rng.Intn(4)
		case 1:
			n = 5 + rng.Intn(27)
		case 2:
			n = 28 + rng.Intn(8)
		default:
			n = 33 + rng.Intn(60)
		}
	}
	v := make([]byte, n)
	rng.Read(v)
	if v[0] == 0 && rng.Intn(2) == 0 {
		v[0] = 1
	}
	return v
}

// Val draws a value: mostly from a small per-space pool (so that overwrites with the same
// value and equal leaves at different keys occur), sometimes fresh.
func (s *Space) Val(rng *rand.Rand) []byte {
	if rng.Intn(3) != 0 {
		return s.vals[rng.Intn(len(s.vals))]
	}
	return genValue(rng, s.ValClass)
}

// Key draws a key of the pool.
func (s *Space) Key(rng *rand.Rand) []byte { return s.Keys[rng.Intn(len(s.Keys))] }

var alphabets = [][]byte{
	{0x00, 0x01, 0x10, 0x11},
	{0x12, 0x13, 0x22, 0xf2},
	{0xa0, 0xa1, 0xaf, 0xff},
	{0x00, 0x0f, 0xf0, 0xff},
	{0x55, 0x56, 0x65, 0x57},
}

var valClasses = []string{"tiny", "edge", "long", "mixed", "mixed"}

// SpaceKinds lists the key-space families.
var SpaceKinds = []string{"small", "small-fixed", "h32", "h32-deep", "mixedlen", "fixed4"}

// NewSpace builds a key space of the given kind.
//
//	small       1..3-byte keys over a 4-symbol alphabet (prefix keys occur)
//	small-fixed 2- or 3-byte keys over a 4-symbol alphabet (prefix free, dense)
//	h32         32-byte keys, random (hashed keys)
//	h32-deep    32-byte keys derived from each other by changing one nibble at a random
//	            depth (long shared prefixes, extension nodes at every depth)
//	mixedlen    keys of length 0..5 derived from each other by truncation/extension
//	fixed4      4-byte keys with few distinct nibbles per position (dense, deep, prefix free)
func NewSpace(rng *rand.Rand, kind string, poolSize int) *Space {
	s := &Space{Name: kind, ValClass: valClasses[rng.Intn(len(valClasses))]}
	seen := map[string]bool{}
	add := func(k []byte) {
		if !seen[string(k)] {
			seen[string(k)] = true
			s.Keys = append(s.Keys, k)
		}
	}
	switch kind {
	case "small", "small-fixed":
		al := alphabets[rng.Intn(len(alphabets))]
		minL, maxL := 1, 3
		if kind == "small-fixed" {
			minL = 2 + rng.Intn(2)
			maxL = minL
		}
		for l := minL; l <= maxL; l++ {
			n := 1
			for i := 0; i < l; i++ {
				n *= len(al)
			}
			for x := 0; x < n; x++ {
				k := make([]byte, l)
				y := x
				for i := 0; i < l; i++ {
					k[i] = al[y%len(al)]
					y /= len(al)
				}
				add(k)
			}
		}
		rng.Shuffle(len(s.Keys), func(i, j int) { s.Keys[i], s.Keys[j] = s.Keys[j], s.Keys[i] })
		if poolSize > 0 && len(s.Keys) > poolSize {
			s.Keys = s.Keys[:poolSize]
		}
	case "h32":
		for len(s.Keys) < poolSize {
			k := make([]byte, 32)
			rng.Read(k)
			add(k)
		}
	case "h32-deep":
		k0 := make([]byte, 32)
		rng.Read(k0)
		add(k0)
		for tries := 0; len(s.Keys) < poolSize && tries < 20*poolSize; tries++ {
			k := common.CopyBytes(s.Keys[rng.Intn(len(s.Keys))])
			var pos int // nibble position to change
			switch rng.Intn(4) {
			case 0:
				pos = rng.Intn(3)
			case 1:
				pos = rng.Intn(8)
			case 2:
				pos = rng.Intn(64)
			default:
				pos = 56 + rng.Intn(8)
			}
			nb := byte(rng.Intn(16))
			if pos%2 == 0 {
				k[pos/2] = k[pos/2]&0x0f | nb<<4
			} else {
				k[pos/2] = k[pos/2]&0xf0 | nb
			}
			if rng.Intn(3) == 0 { // randomise the tail
				for i := pos/2 + 1; i < 32; i++ {
					k[i] = byte(rng.Intn(256))
				}
			}
			add(k)
		}
	case "mixedlen":
		al := alphabets[rng.Intn(len(alphabets))]
		add([]byte{al[0]})
		if rng.Intn(3) == 0 {
			add([]byte{})
		}
		for tries := 0; len(s.Keys) < poolSize && tries < 20*poolSize; tries++ {
			k := common.CopyBytes(s.Keys[rng.Intn(len(s.Keys))])
			switch rng.Intn(3) {
			case 0:
				if len(k) < 5 {
					k = append(k, al[rng.Intn(len(al))])
				}
			case 1:
				if len(k) > 1 {
					k = k[:len(k)-1]
				}
			default:
				if len(k) > 0 {
					k[rng.Intn(len(k))] = al[rng.Intn(len(al))]
				}
			}
			add(k)
		}
	case "fixed4":
		al := alphabets[rng.Intn(len(alphabets))][:2+rng.Intn(3)]
		for tries := 0; len(s.Keys) < poolSize && tries < 20*poolSize; tries++ {
			k := make([]byte, 4)
			for i := range k {
				k[i] = al[rng.Intn(len(al))]
			}
			add(k)
		}
	default:
		panic("unknown space " + kind)
	}
	s.PrefixFree, s.FixedLen = Classify(s.Keys)
	nv := 2 + rng.Intn(6)
	for i := 0; i < nv; i++ {
		s.vals = append(s.vals, genValue(rng, s.ValClass))
	}
	return s
}

// Classify reports whether a key set is prefix free (and has no empty key) and its common
// length (0 if lengths differ).
func Classify(keys [][]byte) (prefixFree bool, fixedLen int) {
	prefixFree = true
	if len(keys) == 0 {
		return true, 0
	}
	fixedLen = len(keys[0])
	for _, k := range keys {
		if len(k) != fixedLen {
			fixedLen = 0
		}
		if len(k) == 0 {
			prefixFree = false
		}
	}
	if fixedLen > 0 {
		return true, fixedLen
	}
	ks := make([][]byte, len(keys))
	copy(ks, keys)
	sort.Slice(ks, func(i, j int) bool { return bytes.Compare(ks[i], ks[j]) < 0 })
	for i := 0; i+1 < len(ks); i++ {
		if bytes.HasPrefix(ks[i+1], ks[i]) {
			prefixFree = false
		}
	}
	return
}

// MapKeys returns the keys of the non-empty entries of m.
func MapKeys(m map[string][]byte) [][]byte {
	out := make([][]byte, 0, len(m))
	for k, v := range m {
		if len(v) != 0 {
			out = append(out, []byte(k))
		}
	}
	return out
}

// CloneMap copies a shadow map.
func CloneMap(m map[string][]byte) map[string][]byte {
	c := make(map[string][]byte, len(m))
	for k, v := range m {
		c[k] = v
	}
	return c
}

// RootShape describes the root node of the reference trie of a map: "nil", "short"
// (leaf or extension) or "full"; for "full" also which of the 17 child slots are set.
func RootShape(m map[string][]byte) (shape string, children [17]bool) {
	n := 0
	for k, v := range m {
		if len(v) == 0 {
			continue
		}
		n++
		if len(k) == 0 {
			children[16] = true
		} else {
			children[k[0]>>4] = true
		}
	}
	if n == 0 {
		return "nil", children
	}
	c := 0
	for _, b := range children {
		if b {
			c++
		}
	}
	if c >= 2 {
		return "full", children
	}
	return "short", children
}

// HexMap renders a shadow map for witnesses (bounded).
func HexMap(m map[string][]byte, max int) [][2]string {
	ks := make([]string, 0, len(m))
	for k, v := range m {
		if len(v) != 0 {
			ks = append(ks, k)
		}
	}
	sort.Strings(ks)
	var out [][2]string
	for _, k := range ks {
		if len(out) >= max {
			break
		}
		out = append(out, [2]string{fmt.Sprintf("%x", k), fmt.Sprintf("%x", m[k])})
	}
	return out
}
