package evmenv

import "runtime/debug"

func debugStack() []byte { return debug.Stack() }
