// Package evmenv builds small committed pre-states and executes messages on them through
// core/vm/runtime (or an EVM built with runtime.NewEnv when faithful pre-merge rule sets or
// access to the EVM object are needed). Shared by the C27/C28/C29 harnesses.
package evmenv

import (
	"crypto/sha256"
	"encoding/hex"
	"errors"
	"fmt"
	"math/big"
	"sort"

	"github.com/ethereum/go-ethereum/common"
	"github.com/ethereum/go-ethereum/core"
	"github.com/ethereum/go-ethereum/core/state"
	"github.com/ethereum/go-ethereum/core/tracing"
	"github.com/ethereum/go-ethereum/core/types"
	"github.com/ethereum/go-ethereum/core/vm"
	"github.com/ethereum/go-ethereum/core/vm/runtime"
	"github.com/ethereum/go-ethereum/params"
	"github.com/ethereum/go-ethereum/tests"
	"github.com/holiman/uint256"

	"verif/lib/proggen"
)

// RuleSets are the names (keys of tests.Forks) of the rule sets exercised, oldest first.
var RuleSets = []string{"Frontier", "Homestead", "EIP150", "EIP158", "Byzantium", "Constantinople",
	"ConstantinopleFix", "Istanbul", "MuirGlacier", "Berlin", "London", "ArrowGlacier", "GrayGlacier", "Merge",
	"Shanghai", "Cancun", "Prague", "Osaka", "BPO1", "Amsterdam"}

// Account is one pre-state account.
type Account struct {
	Addr    common.Address
	Code    []byte
	Balance *uint256.Int
	Nonce   uint64
	Storage map[common.Hash]common.Hash
}

// World is a committed pre-state under one rule set. NewState opens cheap fresh StateDBs on
// it; the backing database is never written after construction and may be shared by
// goroutines.
type World struct {
	Name     string
	Cfg      *params.ChainConfig
	Fork     proggen.Fork
	Accounts []Account
	Number   uint64
	Time     uint64
	Merged   bool // post-merge rule set (Random set)
	// BlockGasLimit, when non-zero, is what GASLIMIT reports on EVMs built by NewEVM (CallEVM /
	// CreateEVM); otherwise (and always on the runtime.* API paths) it equals the message's gas.
	BlockGasLimit uint64

	db   state.Database
	root common.Hash
}

var (
	Origin   = common.HexToAddress("0x00000000000000000000000000000000000a11ce")
	Coinbase = common.HexToAddress("0x000000000000000000000000000000000000c01b")
	random   = common.HexToHash("0x9e3779b97f4a7c15f39cc0605cedc8341082276bf3a27251f86c6a11d0c18e95")
)

// NewWorld commits the accounts (plus a funded Origin) and returns the world. Unknown rule
// set names panic.
func NewWorld(name string, accts []Account) *World {
	cfg, ok := tests.Forks[name]
	if !ok {
		panic("evmenv: unknown rule set " + name)
	}
	f, ok := proggen.ParseFork(name)
	if !ok {
		panic("evmenv: proggen does not know rule set " + name)
	}
	w := &World{Name: name, Cfg: cfg, Fork: f, Accounts: accts, Number: 1000, Time: 1000, Merged: f >= proggen.Paris}
	w.db = state.NewDatabaseForTesting()
	sdb, err := state.New(types.EmptyRootHash, w.db)
	if err != nil {
		panic(err)
	}
	sdb.SetBalance(Origin, new(uint256.Int).Lsh(uint256.NewInt(1), 100), tracing.BalanceChangeUnspecified)
	sdb.SetNonce(Origin, 1, tracing.NonceChangeUnspecified)
	for _, a := range accts {
		sdb.CreateAccount(a.Addr)
		if len(a.Code) > 0 {
			sdb.SetCode(a.Addr, a.Code, tracing.CodeChangeUnspecified)
		}
		if a.Balance != nil {
			sdb.SetBalance(a.Addr, a.Balance, tracing.BalanceChangeUnspecified)
		}
		nonce := a.Nonce
		if nonce == 0 && len(a.Code) > 0 && f >= proggen.SpuriousDragon {
			nonce = 1
		}
		sdb.SetNonce(a.Addr, nonce, tracing.NonceChangeUnspecified)
		for k, v := range a.Storage {
			sdb.SetState(a.Addr, k, v)
		}
	}
	root, err := sdb.Commit(w.Rules(), w.Number-1)
	if err != nil {
		panic(err)
	}
	w.root = root
	return w
}

// Root is the committed pre-state root.
func (w *World) Root() common.Hash { return w.root }

// Rules returns the chain rules in force.
func (w *World) Rules() params.Rules {
	return w.Cfg.Rules(new(big.Int).SetUint64(w.Number), w.Merged, w.Time)
}

// NewState opens a fresh StateDB on the committed pre-state.
func (w *World) NewState() *state.StateDB {
	sdb, err := state.New(w.root, w.db)
	if err != nil {
		panic(err)
	}
	return sdb
}

// Config returns a runtime.Config for this world. Random is set only for post-merge rule
// sets (note that runtime.Call/Execute/Create force it to a non-nil value themselves).
func (w *World) Config(sdb *state.StateDB, gas uint64, value *big.Int, tracer *tracing.Hooks) *runtime.Config {
	if value == nil {
		value = new(big.Int)
	}
	c := &runtime.Config{
		ChainConfig: w.Cfg, Difficulty: big.NewInt(131072), Origin: Origin, Coinbase: Coinbase,
		BlockNumber: new(big.Int).SetUint64(w.Number), Time: w.Time, GasLimit: gas, GasPrice: big.NewInt(0),
		Value: value, BaseFee: big.NewInt(7), BlobBaseFee: big.NewInt(3), State: sdb,
		BlobHashes: []common.Hash{common.HexToHash("0x01aa"), common.HexToHash("0x01bb")},
		GetHashFn: func(n uint64) common.Hash {
			return common.BigToHash(new(big.Int).Add(new(big.Int).Lsh(big.NewInt(0xb10c), 64), new(big.Int).SetUint64(n)))
		},
	}
	if w.Merged {
		r := random
		c.Random = &r
	}
	c.EVMConfig.Tracer = tracer
	return c
}

// Result is the observable outcome of one message.
type Result struct {
	Ret      []byte
	Err      error
	Leftover uint64
	Root     common.Hash // post-state root (after IntermediateRoot under the world's rules)
	Logs     []*types.Log
	Refund   uint64
	Created  common.Address
	Panic    any
	Stack    string
}

// ErrClass maps an execution error to a stable class name.
func ErrClass(err error) string {
	switch {
	case err == nil:
		return "ok"
	case errors.Is(err, vm.ErrExecutionReverted):
		return "revert"
	case errors.Is(err, vm.ErrCodeStoreOutOfGas):
		return "codestore-oog"
	case errors.Is(err, vm.ErrOutOfGas):
		return "oog"
	case errors.Is(err, vm.ErrGasUintOverflow):
		return "gas-overflow"
	case errors.Is(err, vm.ErrDepth):
		return "depth"
	case errors.Is(err, vm.ErrInsufficientBalance):
		return "balance"
	case errors.Is(err, vm.ErrContractAddressCollision):
		return "collision"
	case errors.Is(err, vm.ErrInvalidJump):
		return "badjump"
	case errors.Is(err, vm.ErrWriteProtection):
		return "writeprot"
	case errors.Is(err, vm.ErrReturnDataOutOfBounds):
		return "returndata-oob"
	case errors.Is(err, vm.ErrMaxCodeSizeExceeded):
		return "maxcode"
	case errors.Is(err, vm.ErrMaxInitCodeSizeExceeded):
		return "maxinitcode"
	case errors.Is(err, vm.ErrInvalidCode):
		return "invalidcode"
	case errors.Is(err, vm.ErrNonceUintOverflow):
		return "nonce-overflow"
	}
	var su *vm.ErrStackUnderflow
	if errors.As(err, &su) {
		return "underflow"
	}
	var so *vm.ErrStackOverflow
	if errors.As(err, &so) {
		return "overflow"
	}
	var io *vm.ErrInvalidOpCode
	if errors.As(err, &io) {
		return "invalidop"
	}
	return "other:" + err.Error()
}

// Class is ErrClass of the result ("panic" if the call panicked).
func (r Result) Class() string {
	if r.Panic != nil {
		return "panic"
	}
	return ErrClass(r.Err)
}

// LogsDigest hashes the log list (address, topics, data, in order).
func LogsDigest(logs []*types.Log) string {
	h := sha256.New()
	for _, l := range logs {
		h.Write(l.Address[:])
		h.Write([]byte{byte(len(l.Topics))})
		for _, t := range l.Topics {
			h.Write(t[:])
		}
		fmt.Fprintf(h, "%d:", len(l.Data))
		h.Write(l.Data)
	}
	return hex.EncodeToString(h.Sum(nil)[:8])
}

// Digest summarises everything observable (return data, error class, left-over gas, state
// root, logs, refund counter).
func (r Result) Digest() string {
	return fmt.Sprintf("%s|ret=%x|gas=%d|root=%x|logs=%d:%s|refund=%d", r.Class(), r.Ret, r.Leftover, r.Root[:6], len(r.Logs), LogsDigest(r.Logs), r.Refund)
}

// DigestNoGas is Digest without the left-over gas and refund counter.
func (r Result) DigestNoGas() string {
	return fmt.Sprintf("%s|ret=%x|root=%x|logs=%d:%s", r.Class(), r.Ret, r.Root[:6], len(r.Logs), LogsDigest(r.Logs))
}

func (w *World) finish(sdb *state.StateDB, r *Result) {
	r.Refund = sdb.GetRefund()
	r.Logs = sdb.Logs()
	r.Root = sdb.IntermediateRoot(w.Rules())
}

func guard(r *Result, f func()) {
	defer func() {
		if e := recover(); e != nil {
			r.Panic = e
			r.Stack = string(debugStack())
		}
	}()
	f()
}

// Call runs runtime.Call (API path; forces post-merge instruction selection, see Config).
func (w *World) Call(sdb *state.StateDB, to common.Address, input []byte, gas uint64, value *big.Int, tracer *tracing.Hooks) (r Result) {
	cfg := w.Config(sdb, gas, value, tracer)
	guard(&r, func() { r.Ret, r.Leftover, r.Err = runtime.Call(to, input, cfg) })
	if r.Panic == nil {
		w.finish(sdb, &r)
	}
	return r
}

// Create runs runtime.Create.
func (w *World) Create(sdb *state.StateDB, initcode []byte, gas uint64, value *big.Int, tracer *tracing.Hooks) (r Result) {
	cfg := w.Config(sdb, gas, value, tracer)
	guard(&r, func() { r.Ret, r.Created, r.Leftover, r.Err = runtime.Create(initcode, cfg) })
	if r.Panic == nil {
		w.finish(sdb, &r)
	}
	return r
}

// ExecuteAddr is the address runtime.Execute installs the code at.
var ExecuteAddr = common.BytesToAddress([]byte("contract"))

// Execute runs runtime.Execute with the world's state (the code is installed at ExecuteAddr).
// runtime.Execute does not report left-over gas; Leftover stays 0.
func (w *World) Execute(sdb *state.StateDB, code, input []byte, gas uint64, value *big.Int, tracer *tracing.Hooks) (r Result) {
	cfg := w.Config(sdb, gas, value, tracer)
	guard(&r, func() { r.Ret, _, r.Err = runtime.Execute(code, input, cfg) })
	if r.Panic == nil {
		w.finish(sdb, &r)
	}
	return r
}

// NewEVM builds an EVM exactly like runtime.Call does, but with the world's faithful rule
// set (pre-merge rule sets keep Random == nil).
func (w *World) NewEVM(sdb *state.StateDB, gas uint64, tracer *tracing.Hooks) *vm.EVM {
	evm := runtime.NewEnv(w.Config(sdb, gas, nil, tracer))
	if w.BlockGasLimit != 0 {
		evm.Context.GasLimit = w.BlockGasLimit
	}
	return evm
}

// NewEVMHooked is NewEVM with the state wrapped by state.NewHookedState, so that the tracer also
// receives OnBalanceChange / OnNonceChange / OnCodeChange / OnStorageChange / OnLog (the runtime
// package never wraps the state). The block and tx context are built as runtime.NewEnv does.
func (w *World) NewEVMHooked(sdb *state.StateDB, gas uint64, tracer *tracing.Hooks) *vm.EVM {
	cfg := w.Config(sdb, gas, nil, tracer)
	bc := vm.BlockContext{
		CanTransfer: core.CanTransfer, Transfer: core.Transfer, GetHash: cfg.GetHashFn, Coinbase: cfg.Coinbase,
		BlockNumber: cfg.BlockNumber, Time: cfg.Time, Difficulty: cfg.Difficulty, GasLimit: cfg.GasLimit,
		BaseFee: cfg.BaseFee, BlobBaseFee: cfg.BlobBaseFee, Random: cfg.Random, CostPerStateByte: params.CostPerStateByte,
	}
	if w.BlockGasLimit != 0 {
		bc.GasLimit = w.BlockGasLimit
	}
	evm := vm.NewEVM(bc, state.NewHookedState(sdb, tracer), cfg.ChainConfig, cfg.EVMConfig)
	evm.SetTxContext(vm.TxContext{Origin: cfg.Origin, GasPrice: uint256.MustFromBig(cfg.GasPrice), BlobHashes: cfg.BlobHashes})
	return evm
}

// CallEVMHooked is CallEVM on an EVM built by NewEVMHooked.
func (w *World) CallEVMHooked(sdb *state.StateDB, to common.Address, input []byte, gas uint64, value *uint256.Int, tracer *tracing.Hooks) (r Result) {
	if value == nil {
		value = new(uint256.Int)
	}
	guard(&r, func() {
		evm := w.NewEVMHooked(sdb, gas, tracer)
		rules := w.Rules()
		sdb.Prepare(rules, Origin, Coinbase, &to, vm.ActivePrecompiles(rules), nil)
		limit := gas
		if rules.IsAmsterdam {
			limit = min(gas, params.MaxTxGas)
		}
		var res vm.GasBudget
		r.Ret, res, r.Err = evm.Call(Origin, to, input, vm.NewGasBudget(limit, gas-limit), value)
		r.Leftover = res.ExecutionGas
		evm.Release()
	})
	if r.Panic == nil {
		w.finish(sdb, &r)
	}
	return r
}

// CallEVM replicates runtime.Call on an EVM built by NewEVM: Prepare, then evm.Call from
// Origin. setup (may be nil) can attach caches etc. to the EVM before the call.
func (w *World) CallEVM(sdb *state.StateDB, to common.Address, input []byte, gas uint64, value *uint256.Int, tracer *tracing.Hooks, setup func(*vm.EVM)) (r Result) {
	if value == nil {
		value = new(uint256.Int)
	}
	guard(&r, func() {
		evm := w.NewEVM(sdb, gas, tracer)
		if setup != nil {
			setup(evm)
		}
		rules := w.Rules()
		sdb.Prepare(rules, Origin, Coinbase, &to, vm.ActivePrecompiles(rules), nil)
		limit := gas
		if rules.IsAmsterdam {
			limit = min(gas, params.MaxTxGas)
		}
		var res vm.GasBudget
		r.Ret, res, r.Err = evm.Call(Origin, to, input, vm.NewGasBudget(limit, gas-limit), value)
		r.Leftover = res.ExecutionGas
		evm.Release()
	})
	if r.Panic == nil {
		w.finish(sdb, &r)
	}
	return r
}

// CreateEVM replicates runtime.Create on an EVM built by NewEVM.
func (w *World) CreateEVM(sdb *state.StateDB, initcode []byte, gas uint64, value *uint256.Int, tracer *tracing.Hooks) (r Result) {
	if value == nil {
		value = new(uint256.Int)
	}
	guard(&r, func() {
		evm := w.NewEVM(sdb, gas, tracer)
		rules := w.Rules()
		sdb.Prepare(rules, Origin, Coinbase, nil, vm.ActivePrecompiles(rules), nil)
		limit := gas
		if rules.IsAmsterdam {
			limit = min(gas, params.MaxTxGas)
		}
		var res vm.GasBudget
		r.Ret, r.Created, res, r.Err = evm.Create(Origin, initcode, vm.NewGasBudget(limit, gas-limit), value)
		r.Leftover = res.ExecutionGas
		evm.Release()
	})
	if r.Panic == nil {
		w.finish(sdb, &r)
	}
	return r
}

// Describe renders the accounts of interest of a state for witnesses.
func Describe(sdb *state.StateDB, addrs []common.Address, slots []common.Hash) map[string]any {
	out := map[string]any{}
	for _, a := range addrs {
		if !sdb.Exist(a) {
			out[a.Hex()] = "absent"
			continue
		}
		st := map[string]string{}
		for _, s := range slots {
			if v := sdb.GetState(a, s); v != (common.Hash{}) {
				st[s.Hex()] = v.Hex()
			}
		}
		keys := make([]string, 0, len(st))
		for k := range st {
			keys = append(keys, k)
		}
		sort.Strings(keys)
		var sl []string
		for _, k := range keys {
			sl = append(sl, k+"="+st[k])
		}
		out[a.Hex()] = map[string]any{"balance": sdb.GetBalance(a).String(), "nonce": sdb.GetNonce(a),
			"codehash": sdb.GetCodeHash(a).Hex(), "storage": sl}
	}
	return out
}
