package opvm

import (
	"bytes"
	"math/big"
	"testing"

	"github.com/ethereum/go-ethereum/common"
	"github.com/ethereum/go-ethereum/core/rawdb"
	"github.com/ethereum/go-ethereum/core/state"
	"github.com/ethereum/go-ethereum/core/types"
	"github.com/ethereum/go-ethereum/core/vm/runtime"
	"github.com/ethereum/go-ethereum/crypto"
	"github.com/ethereum/go-ethereum/params"
	"github.com/holiman/uint256"
)

// The Op contract only shapes workloads, but a broken one would make them trivial: check
// the main ops against the interpreter.
func TestOpContract(t *testing.T) {
	st, _ := state.New(types.EmptyRootHash, state.NewDatabaseForTesting())
	self := common.HexToAddress("0xc0de01")
	other := common.HexToAddress("0xc0de02")
	st.SetCode(self, Code(), 0)
	st.SetCode(other, Code(), 0)
	st.SetNonce(self, 1, 0)
	st.SetNonce(other, 1, 0)
	st.AddBalance(self, uint256.NewInt(1000), 0)
	cfg := &runtime.Config{ChainConfig: params.MergedTestChainConfig, State: st, GasLimit: 30_000_000, Origin: common.HexToAddress("0xaa"), BlockNumber: big.NewInt(5), Time: 1, Difficulty: big.NewInt(0), Random: &common.Hash{}}
	_ = rawdb.HashScheme
	call := func(to common.Address, cmds ...Cmd) error {
		_, _, err := runtime.Call(to, Encode(cmds...), cfg)
		return err
	}
	slot := func(a common.Address, k uint64) uint64 {
		return new(big.Int).SetBytes(st.GetState(a, common.BigToHash(new(big.Int).SetUint64(k))).Bytes()).Uint64()
	}
	if err := call(self, C(OpSstore, 1, 5), C(OpIncr, 1, 2), C(OpLogSload, 1, 0)); err != nil || slot(self, 1) != 7 {
		t.Fatalf("sstore/incr: err=%v slot=%d", err, slot(self, 1))
	}
	logs := st.Logs()
	if len(logs) != 1 || new(big.Int).SetBytes(logs[0].Data).Uint64() != 7 || logs[0].Topics[0] != common.BigToHash(big.NewInt(1)) {
		t.Fatalf("log: %+v", logs)
	}
	// clone via CREATE, child called with the rest
	if err := call(self, C(OpCreate, 0, 3), C(OpCallLast, 0, 0), C(OpSstore, 2, 9)); err != nil {
		t.Fatal(err)
	}
	child := crypto.CreateAddress(self, 1)
	if !bytes.Equal(st.GetCode(child), Code()) || slot(child, 2) != 9 || st.GetBalance(child).Uint64() != 3 {
		t.Fatalf("clone: code ok=%v slot=%d bal=%s", bytes.Equal(st.GetCode(child), Code()), slot(child, 2), st.GetBalance(child))
	}
	// CREATE2 clone at the predictable address; init-sstore variant
	if err := call(self, C(OpCreate2, 7, 0), C(OpCreateInitSst, 0, 0)); err != nil {
		t.Fatal(err)
	}
	c2 := crypto.CreateAddress2(self, common.BigToHash(big.NewInt(7)), crypto.Keccak256(CloneInit(false)))
	if !bytes.Equal(st.GetCode(c2), Code()) {
		t.Fatalf("create2 clone missing at %x", c2)
	}
	c3 := crypto.CreateAddress(self, 3) // nonce 1: CREATE, 2: CREATE2
	if !bytes.Equal(st.GetCode(c3), Code()) || slot(c3, 1) != 7 {
		t.Fatalf("init-sstore clone: slot=%d", slot(c3, 1))
	}
	// nested: delegatecall writes the caller's storage, call writes the callee's, static fails
	if err := call(self, CA(OpDelegateRest, other, nil), C(OpSstore, 3, 4)); err != nil || slot(self, 3) != 4 || slot(other, 3) != 0 {
		t.Fatalf("delegate: %v %d %d", err, slot(self, 3), slot(other, 3))
	}
	if err := call(self, CA(OpCallRest, other, big.NewInt(2)), C(OpSstore, 3, 6)); err != nil || slot(other, 3) != 6 || st.GetBalance(other).Uint64() != 2 {
		t.Fatalf("call: %v %d", err, slot(other, 3))
	}
	if err := call(self, CA(OpStaticRest, other, nil), C(OpSstore, 3, 8)); err != nil || slot(other, 3) != 6 {
		t.Fatalf("static: %v %d", err, slot(other, 3))
	}
	// inner revert leaves the outer write
	if err := call(self, C(OpSstore, 0, 1), CA(OpCallRest, other, nil), C(OpSstore, 0, 2), C(OpRevert, 0, 0)); err != nil || slot(self, 0) != 1 || slot(other, 0) != 0 {
		t.Fatalf("inner revert: %v %d %d", err, slot(self, 0), slot(other, 0))
	}
	if err := call(self, C(OpSstore, 0, 5), C(OpRevert, 0, 0)); err == nil || slot(self, 0) != 1 {
		t.Fatalf("revert: %v %d", err, slot(self, 0))
	}
	// value call + balance log
	n := len(st.Logs())
	if err := call(self, CA(OpCallValue, common.HexToAddress("0xbeef"), big.NewInt(11)), CA(OpLogBalance, common.HexToAddress("0xbeef"), nil)); err != nil {
		t.Fatal(err)
	}
	logs = st.Logs()[n:]
	if len(logs) != 2 || new(big.Int).SetBytes(logs[0].Data).Uint64() != 1 || new(big.Int).SetBytes(logs[1].Data).Uint64() != 11 {
		t.Fatalf("value call logs: %+v", logs)
	}
	// op32: returndata of a static call with raw rest bytes (identity precompile echoes them)
	n = len(st.Logs())
	word := common.BigToHash(big.NewInt(0xabcdef)).Bytes()
	data := append(Encode(CA(OpStaticRetRest, common.BytesToAddress([]byte{4}), nil)), word...)
	if _, _, err := runtime.Call(self, data, cfg); err != nil {
		t.Fatal(err)
	}
	logs = st.Logs()[n:]
	if len(logs) != 1 || !bytes.Equal(logs[0].Data, word) {
		t.Fatalf("op32 log: %+v", logs)
	}
	// create+selfdestruct in init: nothing left at the address, value returned to the creator
	before := st.GetBalance(self).Uint64()
	if err := call(self, C(OpCreateSuicide, 0, 4)); err != nil || st.GetBalance(self).Uint64() != before {
		t.Fatalf("create-suicide: %v %d -> %d", err, before, st.GetBalance(self).Uint64())
	}
}
