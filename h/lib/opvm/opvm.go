// Package opvm provides a tiny EVM assembler and one hand-written "command interpreter"
// contract (the Op contract) whose behaviour is driven entirely by transaction calldata.
// It lets a harness express deliberately conflicting block workloads (storage read/write on
// shared slots, balance chains, CREATE/CREATE2 of clones, SELFDESTRUCT, logs, nested
// CALL/DELEGATECALL/STATICCALL/CALLCODE, reverts and halts) as plain data.
//
// Calldata = sequence of 96-byte records (op, a, b), each field a 32-byte big-endian word.
// The contract executes the records in order. Ops (see the Op* constants):
//
//	 1 SSTORE(a, b)                     2 LOG1(topic a, data SLOAD(a))
//	 3 SSTORE(a, SLOAD(a)+b)            4 CALL(addr a, value b, no data); LOG0(success)
//	 5 LOG0(BALANCE(a))                 6 SELFDESTRUCT(a)
//	 7 REVERT                           8 INVALID
//	 9 LOG0(EXTCODESIZE(a),EXTCODEHASH(a))
//	10 CREATE clone of self, value b; remember address; LOG0(address)
//	11 CREATE2 clone, salt a, value b; remember; LOG0(address)
//	12 CALL last created address with the REST of the calldata, value b; LOG0(success); STOP
//	13 CALL a with rest, value b; LOG0(success); STOP
//	14 DELEGATECALL a with rest; LOG0(success); STOP
//	15 STATICCALL a with rest; LOG0(success); STOP
//	16 SLOAD(a) (result dropped)        17 LOG0(EXTCODECOPY(a)[0:32])
//	18 CREATE with init code that reverts (value b); LOG0(address)
//	19 CREATE with init code CALLER SELFDESTRUCT (value b); LOG0(address)
//	20 CREATE clone whose init code first does SSTORE(1, 7) (value b); remember; LOG0(address)
//	21 CALLCODE a with rest, value b; LOG0(success); STOP
//	25 LOG0(GAS)                        26 LOG0(BLOCKHASH(NUMBER-a), NUMBER)
//	27 LOG0(KECCAK256(a as 32 bytes))   28 LOG0(COINBASE, BALANCE(COINBASE), SELFBALANCE)
//	29 TSTORE(a,b)                      30 LOG0(TLOAD(a))
//	31 SSTORE(a, BLOCKHASH(NUMBER-b))  (block hash consumed without a log)
//	32 STATICCALL a with rest (raw bytes allowed); LOG0(returndata[0:32]); STOP
//
// Unknown ops are skipped. All opcodes used exist from Cancun on.
package opvm

import (
	"encoding/binary"
	"fmt"
	"math/big"

	"github.com/ethereum/go-ethereum/common"
)

const (
	OpSstore        = 1
	OpLogSload      = 2
	OpIncr          = 3
	OpCallValue     = 4
	OpLogBalance    = 5
	OpSelfdestruct  = 6
	OpRevert        = 7
	OpInvalid       = 8
	OpLogExtcode    = 9
	OpCreate        = 10
	OpCreate2       = 11
	OpCallLast      = 12
	OpCallRest      = 13
	OpDelegateRest  = 14
	OpStaticRest    = 15
	OpSload         = 16
	OpLogExtcopy    = 17
	OpCreateRevert  = 18
	OpCreateSuicide = 19
	OpCreateInitSst = 20
	OpCallcodeRest  = 21
	OpLogGas        = 25
	OpLogBlockhash  = 26
	OpLogKeccak     = 27
	OpLogCoinbase   = 28
	OpTstore        = 29
	OpLogTload      = 30
	OpSstoreBlkhash = 31
	OpStaticRetRest = 32
)

// Asm is a two-pass assembler with labels (label references are PUSH2).
type Asm struct {
	code   []byte
	labels map[string]int
	fix    []fixup
}

type fixup struct {
	pos  int
	name string
}

func NewAsm() *Asm { return &Asm{labels: map[string]int{}} }

// Op appends raw opcode bytes.
func (a *Asm) Op(b ...byte) *Asm { a.code = append(a.code, b...); return a }

// Push appends the shortest PUSH of v (PUSH0 for 0).
func (a *Asm) Push(v uint64) *Asm {
	if v == 0 {
		return a.Op(0x5f)
	}
	var buf [8]byte
	binary.BigEndian.PutUint64(buf[:], v)
	i := 0
	for buf[i] == 0 {
		i++
	}
	a.Op(byte(0x60 + 7 - i))
	return a.Op(buf[i:]...)
}

// PushBytes appends PUSHn b (1 <= len(b) <= 32).
func (a *Asm) PushBytes(b []byte) *Asm {
	if len(b) == 0 || len(b) > 32 {
		panic("opvm: bad push size")
	}
	a.Op(byte(0x60 + len(b) - 1))
	return a.Op(b...)
}

// PushLabel appends PUSH2 <label>.
func (a *Asm) PushLabel(name string) *Asm {
	a.Op(0x61)
	a.fix = append(a.fix, fixup{len(a.code), name})
	return a.Op(0, 0)
}

// Label places a JUMPDEST named name.
func (a *Asm) Label(name string) *Asm {
	if _, ok := a.labels[name]; ok {
		panic("opvm: duplicate label " + name)
	}
	a.labels[name] = len(a.code)
	return a.Op(0x5b)
}

// Bytes resolves labels and returns the code.
func (a *Asm) Bytes() []byte {
	out := append([]byte{}, a.code...)
	for _, f := range a.fix {
		p, ok := a.labels[f.name]
		if !ok {
			panic("opvm: undefined label " + f.name)
		}
		binary.BigEndian.PutUint16(out[f.pos:], uint16(p))
	}
	return out
}

// opcodes used below
const (
	oSTOP, oADD, oSUB, oLT, oEQ, oISZERO                = 0x00, 0x01, 0x03, 0x10, 0x14, 0x15
	oKECCAK, oBALANCE, oCALLER, oCALLDATALOAD           = 0x20, 0x31, 0x33, 0x35
	oCALLDATASIZE, oCALLDATACOPY, oCODESIZE, oCODECOPY  = 0x36, 0x37, 0x38, 0x39
	oEXTCODESIZE, oEXTCODECOPY, oEXTCODEHASH            = 0x3b, 0x3c, 0x3f
	oBLOCKHASH, oCOINBASE, oNUMBER, oSELFBALANCE        = 0x40, 0x41, 0x43, 0x47
	oPOP, oMLOAD, oMSTORE, oSLOAD, oSSTORE, oJUMP       = 0x50, 0x51, 0x52, 0x54, 0x55, 0x56
	oJUMPI, oGAS, oTLOAD, oTSTORE                       = 0x57, 0x5a, 0x5c, 0x5d
	oDUP1, oDUP2, oDUP3, oDUP4, oDUP5, oDUP6, oDUP7     = 0x80, 0x81, 0x82, 0x83, 0x84, 0x85, 0x86
	oDUP8, oDUP9                                        = 0x87, 0x88
	oLOG0, oLOG1                                        = 0xa0, 0xa1
	oCREATE, oCALL, oCALLCODE, oRETURN, oDELEGATECALL   = 0xf0, 0xf1, 0xf2, 0xf3, 0xf4
	oCREATE2, oSTATICCALL, oREVERT, oINVALID, oSELFDEST = 0xf5, 0xfa, 0xfd, 0xfe, 0xff
)

const (
	memLast = 0x40 // last created address
	memBuf  = 0x80 // init code / forwarded calldata buffer
)

var opCode []byte

// Code returns the runtime code of the Op contract.
func Code() []byte {
	if opCode == nil {
		n := len(build(0))
		opCode = build(n)
		if len(opCode) != n {
			panic("opvm: unstable code length")
		}
	}
	return append([]byte{}, opCode...)
}

// CloneInit returns complete init code deploying the Op contract (optionally doing
// SSTORE(1,7) first); it is what ops 10/11/20 use and can be sent as a creation transaction.
func CloneInit(withSstore bool) []byte {
	c := Code()
	return append(clonePrefix(len(c), withSstore), c...)
}

// clonePrefix returns init code (to be followed by the runtime code) that optionally
// performs SSTORE(1,7) and then returns the rtlen bytes following itself.
func clonePrefix(rtlen int, withSstore bool) []byte {
	a := NewAsm()
	if withSstore {
		a.Push(7).Push(1).Op(oSSTORE)
	}
	// plen = len(prefix); computed by fixed layout: PUSH2 rtlen, DUP1, PUSH1 plen, PUSH0, CODECOPY, PUSH0, RETURN
	plen := len(a.code) + 10
	a.Op(0x61, byte(rtlen>>8), byte(rtlen)).Op(oDUP1).Op(0x60, byte(plen)).Op(0x5f, oCODECOPY, 0x5f, oRETURN)
	if len(a.code) != plen {
		panic("opvm: prefix length")
	}
	return a.code
}

func leftAligned(b []byte) []byte {
	w := make([]byte, 32)
	copy(w, b)
	return w
}

// build assembles the Op contract assuming its own runtime length is rtlen.
func build(rtlen int) []byte {
	a := NewAsm()
	a.Push(0) // i
	a.Label("loop")
	a.Op(oCALLDATASIZE, oDUP2, oLT, oISZERO).PushLabel("end").Op(oJUMPI)
	a.Op(oDUP1, oCALLDATALOAD)                   // [i, op]
	a.Op(oDUP2).Push(32).Op(oADD, oCALLDATALOAD) // [i, op, a]
	a.Op(oDUP3).Push(64).Op(oADD, oCALLDATALOAD) // [i, op, a, b]
	ops := []int{1, 2, 3, 4, 5, 6, 7, 8, 9, 10, 11, 12, 13, 14, 15, 16, 17, 18, 19, 20, 21, 25, 26, 27, 28, 29, 30, 31, 32}
	for _, k := range ops {
		a.Op(oDUP3).Push(uint64(k)).Op(oEQ).PushLabel(fmt.Sprintf("op%d", k)).Op(oJUMPI)
	}
	a.Label("next") // [i, op, a, b]
	a.Op(oPOP, oPOP, oPOP).Push(96).Op(oADD).PushLabel("loop").Op(oJUMP)
	a.Label("end").Op(oSTOP)

	next := func() { a.PushLabel("next").Op(oJUMP) }
	log32 := func() { a.Push(0).Op(oMSTORE).Push(32).Push(0).Op(oLOG0) } // consumes top of stack

	a.Label("op1").Op(oDUP1, oDUP3, oSSTORE)
	next()
	a.Label("op2").Op(oDUP2, oSLOAD).Push(0).Op(oMSTORE).Op(oDUP2).Push(32).Push(0).Op(oLOG1)
	next()
	a.Label("op3").Op(oDUP2, oSLOAD, oDUP2, oADD, oDUP3, oSSTORE)
	next()
	a.Label("op4").Push(0).Push(0).Push(0).Push(0).Op(oDUP5, oDUP7, oGAS, oCALL)
	log32()
	next()
	a.Label("op5").Op(oDUP2, oBALANCE)
	log32()
	next()
	a.Label("op6").Op(oDUP2, oSELFDEST)
	a.Label("op7").Push(0).Push(0).Op(oREVERT)
	a.Label("op8").Op(oINVALID)
	a.Label("op9").Op(oDUP2, oEXTCODESIZE).Push(0).Op(oMSTORE).Op(oDUP2, oEXTCODEHASH).Push(32).Op(oMSTORE).Push(64).Push(0).Op(oLOG0)
	next()
	a.Label("op16").Op(oDUP2, oSLOAD, oPOP)
	next()
	a.Label("op17").Push(0).Push(0).Op(oMSTORE) // clear scratch
	a.Push(32).Push(0).Push(0).Op(oDUP5, oEXTCODECOPY).Push(32).Push(0).Op(oLOG0)
	next()

	// creation: build init code at memBuf, leaving [.., size] and jumping to the creator.
	cloneInit := func(withSstore bool) {
		p := clonePrefix(rtlen, withSstore)
		a.PushBytes(leftAligned(p)).Push(memBuf).Op(oMSTORE)
		a.Op(oCODESIZE).Push(0).Push(uint64(memBuf + len(p))).Op(oCODECOPY)
		a.Op(oCODESIZE).Push(uint64(len(p))).Op(oADD) // size
	}
	smallInit := func(init []byte) {
		a.PushBytes(leftAligned(init)).Push(memBuf).Op(oMSTORE)
		a.Push(uint64(len(init)))
	}
	// [i,op,a,b,size] -> CREATE(value b, memBuf, size) -> [i,op,a,b,addr]
	doCreate := func(remember bool) {
		a.Push(memBuf).Op(oDUP3, oCREATE)
		if remember {
			a.Op(oDUP1).Push(memLast).Op(oMSTORE)
		}
		log32()
		next()
	}
	a.Label("op10")
	cloneInit(false)
	doCreate(true)
	a.Label("op20")
	cloneInit(true)
	doCreate(true)
	a.Label("op18")
	smallInit([]byte{0x5f, 0x5f, oREVERT})
	doCreate(false)
	a.Label("op19")
	smallInit([]byte{oCALLER, oSELFDEST})
	doCreate(false)
	a.Label("op11")
	cloneInit(false)
	// [i,op,a,b,size] -> CREATE2(value b, memBuf, size, salt a): push salt,size,offset,value
	a.Op(oDUP3)    // salt=a  [a,b,size,a]
	a.Op(oDUP2)    // size    [a,b,size,a,size]
	a.Push(memBuf) // offset
	a.Op(oDUP5)    // value=b (top=off(1),size(2),a(3),size(4),b(5))
	a.Op(oCREATE2) // [a,b,size,addr]
	a.Op(oDUP1).Push(memLast).Op(oMSTORE)
	log32()
	a.Op(oPOP) // drop size
	next()

	// forwarding calls: copy rest of calldata to memBuf, call, log success, stop.
	forward := func(kind byte, addrFromMem bool, logRet ...bool) {
		a.Op(oDUP4).Push(96).Op(oADD)    // [i,op,a,b,off]
		a.Op(oDUP1, oCALLDATASIZE, oSUB) // [.., off, len]
		a.Op(oDUP1, oDUP3).Push(memBuf).Op(oCALLDATACOPY)
		a.Push(0).Push(0).Op(oDUP3).Push(memBuf) // [a,b,off,len,0,0,len,buf]
		withValue := kind == oCALL || kind == oCALLCODE
		if withValue {
			a.Op(oDUP7) // b
		}
		if addrFromMem {
			a.Push(memLast).Op(oMLOAD)
		} else if withValue {
			a.Op(oDUP9)
		} else {
			a.Op(oDUP8)
		}
		a.Op(oGAS, kind)
		if len(logRet) > 0 && logRet[0] {
			// returndata[0:32] instead of the success flag (halts if shorter than 32 bytes)
			a.Op(oPOP).Push(32).Push(0).Push(0).Op(0x3e).Push(0).Op(oMLOAD)
		}
		log32()
		a.Op(oSTOP)
	}
	a.Label("op12")
	forward(oCALL, true)
	a.Label("op13")
	forward(oCALL, false)
	a.Label("op14")
	forward(oDELEGATECALL, false)
	a.Label("op15")
	forward(oSTATICCALL, false)
	a.Label("op21")
	forward(oCALLCODE, false)
	a.Label("op32")
	forward(oSTATICCALL, false, true)

	a.Label("op25").Op(oGAS)
	log32()
	next()
	a.Label("op26").Op(oDUP2, oNUMBER, oSUB, oBLOCKHASH).Push(0).Op(oMSTORE).Op(oNUMBER).Push(32).Op(oMSTORE).Push(64).Push(0).Op(oLOG0)
	next()
	a.Label("op27").Op(oDUP2).Push(0).Op(oMSTORE).Push(32).Push(0).Op(oKECCAK)
	log32()
	next()
	a.Label("op28").Op(oCOINBASE).Push(0).Op(oMSTORE).Op(oCOINBASE, oBALANCE).Push(32).Op(oMSTORE).Op(oSELFBALANCE).Push(64).Op(oMSTORE).Push(96).Push(0).Op(oLOG0)
	next()
	a.Label("op29").Op(oDUP1, oDUP3, oTSTORE)
	next()
	a.Label("op30").Op(oDUP2, oTLOAD)
	log32()
	next()
	a.Label("op31").Op(oDUP1, oNUMBER, oSUB, oBLOCKHASH, oDUP3, oSSTORE)
	next()
	return a.Bytes()
}

// Cmd is one calldata record.
type Cmd struct {
	Op   uint64
	A, B *big.Int
}

// C builds a record from small integers.
func C(op uint64, a, b uint64) Cmd {
	return Cmd{op, new(big.Int).SetUint64(a), new(big.Int).SetUint64(b)}
}

// CA builds a record whose first operand is an address.
func CA(op uint64, addr common.Address, b *big.Int) Cmd {
	if b == nil {
		b = new(big.Int)
	}
	return Cmd{op, new(big.Int).SetBytes(addr[:]), b}
}

// Encode serialises records as calldata.
func Encode(cmds ...Cmd) []byte {
	out := make([]byte, 0, 96*len(cmds))
	for _, c := range cmds {
		var w [96]byte
		binary.BigEndian.PutUint64(w[24:32], c.Op)
		if c.A != nil {
			c.A.FillBytes(w[32:64])
		}
		if c.B != nil {
			c.B.FillBytes(w[64:96])
		}
		out = append(out, w[:]...)
	}
	return out
}

// String renders a record list compactly (for witnesses).
func String(cmds []Cmd) string {
	s := ""
	for i, c := range cmds {
		if i > 0 {
			s += ";"
		}
		s += fmt.Sprintf("%d(%x,%x)", c.Op, c.A, c.B)
	}
	return s
}
