package statehist

import (
	"bytes"
	"fmt"
	"sort"

	"github.com/ethereum/go-ethereum/common"
	"github.com/ethereum/go-ethereum/ethdb"

	"verif/lib/refmpt"
)

// Raw is the content of the four path-scheme key spaces of a key-value store, parsed with
// the harness's own knowledge of the schema ('a'+accountHash, 'o'+accountHash+slotHash,
// 'A'+nibblePath, 'O'+accountHash+nibblePath).
type Raw struct {
	Accounts     map[common.Hash][]byte
	Storages     map[SlotKey][]byte
	AccountNodes map[string][]byte
	StorageNodes map[NodeKey][]byte
}

func isPath(p []byte) bool {
	if len(p) >= 64 {
		return false
	}
	for _, c := range p {
		if c > 15 {
			return false
		}
	}
	return true
}

// ScanRaw reads the flat-state and trie-node key spaces of db.
func ScanRaw(db ethdb.Iteratee) *Raw {
	r := &Raw{Accounts: map[common.Hash][]byte{}, Storages: map[SlotKey][]byte{}, AccountNodes: map[string][]byte{}, StorageNodes: map[NodeKey][]byte{}}
	scan := func(prefix byte, f func(rest, val []byte)) {
		it := db.NewIterator([]byte{prefix}, nil)
		defer it.Release()
		for it.Next() {
			f(append([]byte{}, it.Key()[1:]...), append([]byte{}, it.Value()...))
		}
	}
	scan('a', func(k, v []byte) {
		if len(k) == 32 {
			r.Accounts[common.BytesToHash(k)] = v
		}
	})
	scan('o', func(k, v []byte) {
		if len(k) == 64 {
			r.Storages[SlotKey{common.BytesToHash(k[:32]), common.BytesToHash(k[32:])}] = v
		}
	})
	scan('A', func(k, v []byte) {
		if isPath(k) {
			r.AccountNodes[string(k)] = v
		}
	})
	scan('O', func(k, v []byte) {
		if len(k) >= 32 && isPath(k[32:]) {
			r.StorageNodes[NodeKey{common.BytesToHash(k[:32]), string(k[32:])}] = v
		}
	})
	return r
}

// DiffRaw compares the raw key spaces with this state and returns up to max differences
// (stale keys left behind, keys missing, values differing); empty = identical.
func (s *State) DiffRaw(r *Raw, max int) []string {
	var out []string
	add := func(f string, a ...any) {
		if len(out) < max {
			out = append(out, fmt.Sprintf(f, a...))
		}
	}
	for k, v := range s.Accounts {
		if got, ok := r.Accounts[k]; !ok {
			add("account %x missing", k)
		} else if !bytes.Equal(got, v) {
			add("account %x = %x want %x", k, got, v)
		}
	}
	for k := range r.Accounts {
		if _, ok := s.Accounts[k]; !ok {
			add("stale account %x", k)
		}
	}
	for a, m := range s.Storages {
		for k, v := range m {
			if got, ok := r.Storages[SlotKey{a, k}]; !ok {
				add("slot %x/%x missing", a, k)
			} else if !bytes.Equal(got, v) {
				add("slot %x/%x = %x want %x", a, k, got, v)
			}
		}
	}
	for k := range r.Storages {
		if _, ok := s.Storages[k.Addr][k.Slot]; !ok {
			add("stale slot %x/%x", k.Addr, k.Slot)
		}
	}
	for p, v := range s.AccountNodes {
		if got, ok := r.AccountNodes[p]; !ok {
			add("account node %x missing", p)
		} else if !bytes.Equal(got, v) {
			add("account node %x differs", p)
		}
	}
	for p := range r.AccountNodes {
		if _, ok := s.AccountNodes[p]; !ok {
			add("stale account node %x", p)
		}
	}
	for o, m := range s.StorageNodes {
		for p, v := range m {
			if got, ok := r.StorageNodes[NodeKey{o, p}]; !ok {
				add("storage node %x/%x missing", o, p)
			} else if !bytes.Equal(got, v) {
				add("storage node %x/%x differs", o, p)
			}
		}
	}
	for k := range r.StorageNodes {
		if _, ok := s.StorageNodes[k.Owner][k.Path]; !ok {
			add("stale storage node %x/%x", k.Owner, k.Path)
		}
	}
	sort.Strings(out)
	return out
}

// Digest returns a stable, order-independent digest of the raw key spaces (for "nothing
// changed" checks): the XOR of Keccak(tag || key || 0 || value) over all entries plus counts.
func (r *Raw) Digest() string {
	var acc [32]byte
	n := 0
	mix := func(tag byte, k1, k2, v []byte) {
		h := refmpt.Keccak([]byte{tag}, k1, k2, []byte{0}, v)
		for i := range acc {
			acc[i] ^= h[i]
		}
		n++
	}
	for k, v := range r.Accounts {
		mix('a', k[:], nil, v)
	}
	for k, v := range r.Storages {
		mix('o', k.Addr[:], k.Slot[:], v)
	}
	for k, v := range r.AccountNodes {
		mix('A', []byte(k), nil, v)
	}
	for k, v := range r.StorageNodes {
		mix('O', k.Owner[:], []byte(k.Path), v)
	}
	return fmt.Sprintf("%x/%d", acc, n)
}

// AccountRLPReader is implemented by pathdb's state reader (the database.StateReader
// interface only exposes the decoded Account): sr.(statehist.AccountRLPReader).AccountRLP(h).
type AccountRLPReader interface {
	AccountRLP(hash common.Hash) ([]byte, error)
}
