// Package statehist is a generator and ground truth for trees ("histories") of Ethereum
// states over a small address/slot universe. It exists so that layered state stores
// (triedb/pathdb, core/state/snapshot, state history, snap sync servers) can be driven
// through their exported methods with inputs that were NOT produced by trie.Commit /
// StateDB, and judged against an independent model.
//
// # Model
//
//   - A Universe is a fixed pool of addresses and raw storage keys with their Keccak
//     hashes (preimages are kept: pathdb state histories are keyed by address / raw key).
//     Part of the pool is mined so that several hashed keys share 2-3 leading nibbles
//     (deeper branches and extension nodes in the tries).
//   - A State is immutable: the full flat state (accounts in slim RLP keyed by
//     keccak(address); storage values, RLP encoded, keyed by keccak(address) and
//     keccak(rawSlotKey)), and the complete path-keyed trie node sets (account trie under
//     owner common.Hash{} and one storage trie per account that has storage), built by the
//     reference trie verif/lib/refmpt (root + every node of encoded size >= 32, i.e. exactly
//     the nodes a path database stores). State.Root is the state root.
//   - A History is a set of states canonicalised by root: deriving a state whose root
//     already exists returns the existing *State (a repeated root denotes the same state
//     by construction). History.States[0] is always the empty state (types.EmptyRootHash).
//   - An Edge is the difference between ANY two states a -> b (History.Diff): the flat
//     diff (nil value = deleted), the previous values (origins) keyed by address, and the
//     trie node diff with previous blobs from refmpt.Diff. Edge.NodeSet() and
//     Edge.StateSet(rawKeys) build fresh *trienode.MergedNodeSet /
//     *pathdb.StateSetWithOrigin arguments for pathdb.Database.Update on every call (pathdb
//     retains the maps it is given, so never pass the same object twice).
//
// # Typical use
//
//	h := statehist.New(statehist.Config{Accounts: 12, Slots: 6}, rng)
//	e := h.Derive(h.Genesis(), rng)                // random transition from the empty state
//	db.Update(e.Child.Root, e.Parent.Root, blk, e.NodeSet(), e.StateSet(true))
//	want := e.Child.Account(addrHash)              // ground truth
//	e2 := h.Diff(x, y)                             // edge between two existing states (re-converging fork)
//
// All methods of State and Edge are read-only and safe for concurrent use once the value
// has been returned; History itself (Derive/Add) must be used from one goroutine.
package statehist

import (
	"bytes"
	"encoding/binary"
	"fmt"
	"math/big"
	"math/rand"
	"sort"
	"sync"

	"github.com/ethereum/go-ethereum/common"
	"github.com/ethereum/go-ethereum/trie/trienode"
	"github.com/ethereum/go-ethereum/triedb/pathdb"

	"verif/lib/refmpt"
	"verif/lib/refrlp"
)

// EmptyRoot is the root of the empty trie, EmptyCode the hash of empty code.
var (
	EmptyRoot = common.BytesToHash(refmpt.EmptyRoot)
	EmptyCode = common.BytesToHash(refmpt.Keccak(nil))
)

// ---------------------------------------------------------------------------------------
// Universe

// Universe is the pool of addresses and raw slot keys. Index i of Addrs corresponds to
// index i of AddrHashes (= keccak(Addrs[i])); likewise SlotKeys / SlotHashes.
type Universe struct {
	Addrs      []common.Address
	AddrHashes []common.Hash
	SlotKeys   []common.Hash // raw 32-byte storage keys
	SlotHashes []common.Hash // keccak(SlotKeys[i])

	addrIdx map[common.Hash]int // by address hash
	slotIdx map[common.Hash]int // by slot hash
}

const (
	poolAddrs = 96
	poolSlots = 48
)

var (
	poolOnce sync.Once
	pool     *Universe
)

// Pool returns the process-wide deterministic universe (96 addresses, 48 slot keys). Every
// third entry is mined to share the first 2..3 nibbles of its hash with an earlier entry.
func Pool() *Universe {
	poolOnce.Do(func() {
		u := &Universe{addrIdx: map[common.Hash]int{}, slotIdx: map[common.Hash]int{}}
		ctr := uint64(1)
		next := func(n int) []byte {
			b := make([]byte, n)
			binary.BigEndian.PutUint64(b[n-8:], ctr)
			b[0] = 0xa5 // keep addresses away from the precompile / zero range
			ctr++
			return b
		}
		mine := func(n int, have []common.Hash, i int) []byte {
			if i%3 != 2 || len(have) == 0 {
				return next(n)
			}
			target := have[(i*7)%len(have)]
			share := 2 + (i/3)%2 // 2..3 nibbles
			for {
				c := next(n)
				h := refmpt.Keccak(c)
				ok := true
				for k := 0; k < share; k++ {
					var a, b byte
					if k%2 == 0 {
						a, b = h[k/2]>>4, target[k/2]>>4
					} else {
						a, b = h[k/2]&15, target[k/2]&15
					}
					if a != b {
						ok = false
						break
					}
				}
				if ok {
					return c
				}
			}
		}
		for i := 0; i < poolAddrs; i++ {
			a := common.BytesToAddress(mine(20, u.AddrHashes, i))
			h := common.BytesToHash(refmpt.Keccak(a[:]))
			u.addrIdx[h] = len(u.Addrs)
			u.Addrs = append(u.Addrs, a)
			u.AddrHashes = append(u.AddrHashes, h)
		}
		for i := 0; i < poolSlots; i++ {
			var k common.Hash
			if i < 8 {
				k[31] = byte(i) // solidity-style small slot numbers
			} else {
				k = common.BytesToHash(mine(32, u.SlotHashes, i))
			}
			h := common.BytesToHash(refmpt.Keccak(k[:]))
			u.slotIdx[h] = len(u.SlotKeys)
			u.SlotKeys = append(u.SlotKeys, k)
			u.SlotHashes = append(u.SlotHashes, h)
		}
		pool = u
	})
	return pool
}

// AddrOf returns the address whose hash is h (preimage), ok=false if h is not in the pool.
func (u *Universe) AddrOf(h common.Hash) (common.Address, bool) {
	i, ok := u.addrIdx[h]
	if !ok {
		return common.Address{}, false
	}
	return u.Addrs[i], true
}

// SlotKeyOf returns the raw storage key whose hash is h.
func (u *Universe) SlotKeyOf(h common.Hash) (common.Hash, bool) {
	i, ok := u.slotIdx[h]
	if !ok {
		return common.Hash{}, false
	}
	return u.SlotKeys[i], true
}

// ---------------------------------------------------------------------------------------
// Logical accounts

// Acct is the logical (decoded) account of the model.
type Acct struct {
	Nonce    uint64
	Balance  *big.Int
	CodeHash common.Hash    // EmptyCode for an account without code
	Storage  map[int][]byte // pool slot index -> value bytes without leading zeros (non-empty)
}

func (a *Acct) copy() *Acct {
	c := &Acct{Nonce: a.Nonce, Balance: new(big.Int).Set(a.Balance), CodeHash: a.CodeHash, Storage: make(map[int][]byte, len(a.Storage))}
	for k, v := range a.Storage {
		c.Storage[k] = v
	}
	return c
}

// SlimRLP encodes an account in go-ethereum's "slim" snapshot format: the storage root and
// code hash are replaced by the empty string when they are the empty root / empty code hash.
func SlimRLP(nonce uint64, balance *big.Int, root, codeHash common.Hash) []byte {
	var r, c []byte
	if root != EmptyRoot {
		r = root[:]
	}
	if codeHash != EmptyCode {
		c = codeHash[:]
	}
	return refrlp.EncodeListRaw(refrlp.EncodeUint(nonce), refrlp.EncodeString(balance.Bytes()), refrlp.EncodeString(r), refrlp.EncodeString(c))
}

// FullRLP encodes an account in consensus format (the account trie leaf value).
func FullRLP(nonce uint64, balance *big.Int, root, codeHash common.Hash) []byte {
	return refrlp.EncodeListRaw(refrlp.EncodeUint(nonce), refrlp.EncodeString(balance.Bytes()), refrlp.EncodeString(root[:]), refrlp.EncodeString(codeHash[:]))
}

// SlimToFull converts a slim account encoding into the consensus encoding (own decoder).
func SlimToFull(slim []byte) ([]byte, error) {
	it, err := refrlp.Decode(slim)
	if err != nil || !it.IsList || len(it.List) != 4 {
		return nil, fmt.Errorf("statehist: bad slim account %x", slim)
	}
	root, code := it.List[2].Str, it.List[3].Str
	if len(root) == 0 {
		root = EmptyRoot[:]
	}
	if len(code) == 0 {
		code = EmptyCode[:]
	}
	return refrlp.EncodeListRaw(refrlp.EncodeString(it.List[0].Str), refrlp.EncodeString(it.List[1].Str), refrlp.EncodeString(root), refrlp.EncodeString(code)), nil
}

// ---------------------------------------------------------------------------------------
// State

// KV is one flat-state entry.
type KV struct {
	Hash  common.Hash
	Value []byte
}

// State is one immutable state. Maps must be treated as read-only.
type State struct {
	ID   int         // index in History.States
	Root common.Hash // state root

	// Flat state.
	Accounts map[common.Hash][]byte                 // keccak(address) -> slim RLP
	Storages map[common.Hash]map[common.Hash][]byte // keccak(address) -> keccak(slot key) -> RLP(value); only accounts with >= 1 slot

	// Trie nodes as a path database stores them: nibble path (one byte per nibble) -> blob.
	AccountNodes map[string][]byte
	StorageNodes map[common.Hash]map[string][]byte // owner -> path -> blob; only accounts with storage
	StorageRoots map[common.Hash]common.Hash       // owner -> storage root (absent = EmptyRoot)

	model map[int]*Acct // pool address index -> logical account

	once     sync.Once
	acctList []KV
	slotList map[common.Hash][]KV
}

func (s *State) sortLists() {
	s.once.Do(func() {
		s.acctList = sortKV(s.Accounts)
		s.slotList = make(map[common.Hash][]KV, len(s.Storages))
		for a, m := range s.Storages {
			s.slotList[a] = sortKV(m)
		}
	})
}

func sortKV(m map[common.Hash][]byte) []KV {
	l := make([]KV, 0, len(m))
	for k, v := range m {
		l = append(l, KV{k, v})
	}
	sort.Slice(l, func(i, j int) bool { return bytes.Compare(l[i].Hash[:], l[j].Hash[:]) < 0 })
	return l
}

// Account returns the slim RLP of the account with the given address hash, nil if absent.
func (s *State) Account(addrHash common.Hash) []byte { return s.Accounts[addrHash] }

// Storage returns the RLP-encoded slot value, nil if absent.
func (s *State) Storage(addrHash, slotHash common.Hash) []byte {
	return s.Storages[addrHash][slotHash]
}

// Node returns the trie node blob stored at (owner, path) in this state, nil if there is
// no (hashed) node at that path. owner == common.Hash{} addresses the account trie.
func (s *State) Node(owner common.Hash, path []byte) []byte {
	if owner == (common.Hash{}) {
		return s.AccountNodes[string(path)]
	}
	return s.StorageNodes[owner][string(path)]
}

// StorageRoot returns the storage root of the account (EmptyRoot if none / no account).
func (s *State) StorageRoot(addrHash common.Hash) common.Hash {
	if r, ok := s.StorageRoots[addrHash]; ok {
		return r
	}
	return EmptyRoot
}

// AccountsFrom returns the accounts with hash >= seek in ascending hash order (shared
// slice, read-only).
func (s *State) AccountsFrom(seek common.Hash) []KV {
	s.sortLists()
	return from(s.acctList, seek)
}

// StorageFrom returns the slots of the account with hash >= seek in ascending order.
func (s *State) StorageFrom(addrHash, seek common.Hash) []KV {
	s.sortLists()
	return from(s.slotList[addrHash], seek)
}

func from(l []KV, seek common.Hash) []KV {
	i := sort.Search(len(l), func(i int) bool { return bytes.Compare(l[i].Hash[:], seek[:]) >= 0 })
	return l[i:]
}

// NumSlots returns the total number of storage slots of the state.
func (s *State) NumSlots() int {
	n := 0
	for _, m := range s.Storages {
		n += len(m)
	}
	return n
}

// NumNodes returns the total number of stored trie nodes of the state.
func (s *State) NumNodes() int {
	n := len(s.AccountNodes)
	for _, m := range s.StorageNodes {
		n += len(m)
	}
	return n
}

// Model returns the logical account at pool address index i (nil if absent). Read-only.
func (s *State) Model(i int) *Acct { return s.model[i] }

// ---------------------------------------------------------------------------------------
// History

// Config selects the sub-universe and the shape of random transitions.
type Config struct {
	Accounts int // number of pool addresses used (default 12, max 96)
	Slots    int // number of pool slot keys used (default 6, max 48)
	// MaxOps is the maximal number of account-level operations per random transition
	// (default 4); each transition has at least one effective operation.
	MaxOps int
	// BigValues makes ~1/4 of the slot values 32 bytes long (larger nodes, faster buffer
	// fill); otherwise values are 1..8 bytes mostly.
	BigValues bool
}

// NodeKey identifies a trie node position.
type NodeKey struct {
	Owner common.Hash
	Path  string
}

// SlotKey identifies a storage slot.
type SlotKey struct {
	Addr common.Hash
	Slot common.Hash
}

// History is a root-canonical set of states plus the union of every key touched.
type History struct {
	U      *Universe
	Cfg    Config
	States []*State
	ByRoot map[common.Hash]*State

	addrs []int // pool indices in use
	slots []int

	// Union of all keys that exist in at least one state (sorted slices are produced on
	// demand by TouchedX).
	touchedAccts map[common.Hash]struct{}
	touchedSlots map[SlotKey]struct{}
	touchedNodes map[NodeKey]map[common.Hash]struct{} // -> hashes of all blobs ever seen there

	// cache of per-account storage tries keyed by content digest -> avoids rebuilding
	stCache map[string]*stTrie
}

type stTrie struct {
	root  common.Hash
	nodes map[string][]byte
	flat  map[common.Hash][]byte
}

// New creates a history holding only the empty state. The sub-universe is drawn from the
// pool with rng.
func New(cfg Config, rng *rand.Rand) *History {
	if cfg.Accounts <= 0 {
		cfg.Accounts = 12
	}
	if cfg.Accounts > poolAddrs {
		cfg.Accounts = poolAddrs
	}
	if cfg.Slots <= 0 {
		cfg.Slots = 6
	}
	if cfg.Slots > poolSlots {
		cfg.Slots = poolSlots
	}
	if cfg.MaxOps <= 0 {
		cfg.MaxOps = 4
	}
	h := &History{U: Pool(), Cfg: cfg, ByRoot: map[common.Hash]*State{},
		touchedAccts: map[common.Hash]struct{}{}, touchedSlots: map[SlotKey]struct{}{},
		touchedNodes: map[NodeKey]map[common.Hash]struct{}{}, stCache: map[string]*stTrie{}}
	// Prefer clusters: take a random window start so that mined neighbours (which share
	// prefixes with earlier pool entries) are likely to be included together.
	h.addrs = pick(rng, poolAddrs, cfg.Accounts)
	h.slots = pick(rng, poolSlots, cfg.Slots)
	h.add(h.build(map[int]*Acct{}))
	return h
}

func pick(rng *rand.Rand, n, k int) []int {
	p := rng.Perm(n)[:k]
	sort.Ints(p)
	return p
}

// Genesis returns the empty state (root = EmptyRoot).
func (h *History) Genesis() *State { return h.States[0] }

// AddrIndices / SlotIndices return the pool indices of the sub-universe in use.
func (h *History) AddrIndices() []int { return h.addrs }
func (h *History) SlotIndices() []int { return h.slots }

// build computes the immutable state of a logical model.
func (h *History) build(model map[int]*Acct) *State {
	s := &State{Accounts: map[common.Hash][]byte{}, Storages: map[common.Hash]map[common.Hash][]byte{},
		StorageNodes: map[common.Hash]map[string][]byte{}, StorageRoots: map[common.Hash]common.Hash{}, model: model}
	leaves := make(map[string][]byte, len(model))
	for ai, a := range model {
		ah := h.U.AddrHashes[ai]
		root := EmptyRoot
		if len(a.Storage) > 0 {
			st := h.storageTrie(a.Storage)
			root = st.root
			s.Storages[ah] = st.flat
			s.StorageNodes[ah] = st.nodes
			s.StorageRoots[ah] = st.root
		}
		s.Accounts[ah] = SlimRLP(a.Nonce, a.Balance, root, a.CodeHash)
		leaves[string(ah[:])] = FullRLP(a.Nonce, a.Balance, root, a.CodeHash)
	}
	t := refmpt.Build(leaves)
	s.Root = common.BytesToHash(t.Root)
	s.AccountNodes = t.Nodes
	return s
}

// storageTrie builds (or fetches) the storage trie of a slot map. The result is shared
// between states and must not be modified.
func (h *History) storageTrie(st map[int][]byte) *stTrie {
	idx := make([]int, 0, len(st))
	for k := range st {
		idx = append(idx, k)
	}
	sort.Ints(idx)
	var dig []byte
	for _, k := range idx {
		dig = append(dig, byte(k), byte(len(st[k])))
		dig = append(dig, st[k]...)
	}
	if t, ok := h.stCache[string(dig)]; ok {
		return t
	}
	flat := make(map[common.Hash][]byte, len(st))
	leaves := make(map[string][]byte, len(st))
	for _, k := range idx {
		v := refrlp.EncodeString(st[k])
		flat[h.U.SlotHashes[k]] = v
		leaves[string(h.U.SlotHashes[k][:])] = v
	}
	t := refmpt.Build(leaves)
	res := &stTrie{root: common.BytesToHash(t.Root), nodes: t.Nodes, flat: flat}
	h.stCache[string(dig)] = res
	return res
}

// add registers a state (canonical by root) and returns the canonical instance.
func (h *History) add(s *State) *State {
	if old, ok := h.ByRoot[s.Root]; ok {
		return old
	}
	s.ID = len(h.States)
	h.States = append(h.States, s)
	h.ByRoot[s.Root] = s
	for a := range s.Accounts {
		h.touchedAccts[a] = struct{}{}
	}
	for a, m := range s.Storages {
		for k := range m {
			h.touchedSlots[SlotKey{a, k}] = struct{}{}
		}
	}
	note := func(owner common.Hash, nodes map[string][]byte) {
		for p, b := range nodes {
			k := NodeKey{owner, p}
			m := h.touchedNodes[k]
			if m == nil {
				m = map[common.Hash]struct{}{}
				h.touchedNodes[k] = m
			}
			m[common.BytesToHash(refmpt.Keccak(b))] = struct{}{}
		}
	}
	note(common.Hash{}, s.AccountNodes)
	for o, n := range s.StorageNodes {
		note(o, n)
	}
	return s
}

// AddModel registers the state of an explicit logical model (pool address index -> account)
// and returns its canonical instance. The model is retained.
func (h *History) AddModel(model map[int]*Acct) *State { return h.add(h.build(model)) }

// TouchedAccounts returns, sorted, every account hash that exists in at least one state.
func (h *History) TouchedAccounts() []common.Hash {
	l := make([]common.Hash, 0, len(h.touchedAccts))
	for a := range h.touchedAccts {
		l = append(l, a)
	}
	sort.Slice(l, func(i, j int) bool { return bytes.Compare(l[i][:], l[j][:]) < 0 })
	return l
}

// TouchedSlots returns, sorted, every (account, slot) that exists in at least one state.
func (h *History) TouchedSlots() []SlotKey {
	l := make([]SlotKey, 0, len(h.touchedSlots))
	for k := range h.touchedSlots {
		l = append(l, k)
	}
	sort.Slice(l, func(i, j int) bool {
		if c := bytes.Compare(l[i].Addr[:], l[j].Addr[:]); c != 0 {
			return c < 0
		}
		return bytes.Compare(l[i].Slot[:], l[j].Slot[:]) < 0
	})
	return l
}

// TouchedNodes returns, sorted, every (owner, path) at which some state stores a node.
func (h *History) TouchedNodes() []NodeKey {
	l := make([]NodeKey, 0, len(h.touchedNodes))
	for k := range h.touchedNodes {
		l = append(l, k)
	}
	sort.Slice(l, func(i, j int) bool {
		if c := bytes.Compare(l[i].Owner[:], l[j].Owner[:]); c != 0 {
			return c < 0
		}
		return l[i].Path < l[j].Path
	})
	return l
}

// NodeHashesAt returns the hashes of all blobs that any state stores at the position
// (sorted). Used to probe a state in which the position is empty or different with the
// hash of another state's node.
func (h *History) NodeHashesAt(k NodeKey) []common.Hash {
	m := h.touchedNodes[k]
	l := make([]common.Hash, 0, len(m))
	for x := range m {
		l = append(l, x)
	}
	sort.Slice(l, func(i, j int) bool { return bytes.Compare(l[i][:], l[j][:]) < 0 })
	return l
}

// ---------------------------------------------------------------------------------------
// Random transitions

// Op kinds reported in Edge.Ops (for shape signatures).
const (
	OpCreate   = "create"   // account created (possibly with storage)
	OpModify   = "modify"   // nonce/balance changed only
	OpStorage  = "storage"  // slots created/modified/deleted (account changes with its root)
	OpDelete   = "delete"   // account and all its slots deleted
	OpRecreate = "recreate" // destructed and re-created in the same transition with other (usually fewer) slots
	OpWipe     = "wipe"     // all slots deleted, account kept
)

// Derive applies a random non-empty transition to parent and returns the edge to the
// (canonical) child state. The child's root always differs from the parent's.
func (h *History) Derive(parent *State, rng *rand.Rand) *Edge {
	for {
		model, ops := h.mutate(parent.model, rng)
		child := h.build(model)
		if child.Root == parent.Root {
			continue
		}
		e := h.Diff(parent, h.add(child))
		e.Ops = ops
		return e
	}
}

// DeriveFresh is Derive but guarantees that the child is a state not seen before in this
// history (needed where roots must be unique along a chain, e.g. state histories).
func (h *History) DeriveFresh(parent *State, rng *rand.Rand) *Edge {
	for {
		n := len(h.States)
		e := h.Derive(parent, rng)
		if e.Child.ID >= n {
			return e
		}
	}
}

func (h *History) randValue(rng *rand.Rand) []byte {
	n := 1 + rng.Intn(8)
	switch r := rng.Intn(8); {
	case h.Cfg.BigValues && r < 2:
		n = 32
	case r == 7:
		n = 9 + rng.Intn(24)
	}
	v := make([]byte, n)
	rng.Read(v)
	if v[0] == 0 {
		v[0] = 1 + byte(rng.Intn(255))
	}
	return v
}

func (h *History) randAcct(rng *rand.Rand, maxSlots int) *Acct {
	a := &Acct{Nonce: uint64(rng.Intn(1 << 16)), Balance: new(big.Int).SetUint64(rng.Uint64() >> uint(rng.Intn(64))), CodeHash: EmptyCode, Storage: map[int][]byte{}}
	if rng.Intn(3) == 0 {
		var c common.Hash
		rng.Read(c[:])
		a.CodeHash = c
	}
	if maxSlots > 0 && rng.Intn(4) != 0 {
		n := 1 + rng.Intn(maxSlots)
		for i := 0; i < n; i++ {
			a.Storage[h.slots[rng.Intn(len(h.slots))]] = h.randValue(rng)
		}
	}
	return a
}

func (h *History) mutate(old map[int]*Acct, rng *rand.Rand) (map[int]*Acct, []string) {
	model := make(map[int]*Acct, len(old)+2)
	for k, v := range old {
		model[k] = v // shared until modified (copy-on-write below)
	}
	var ops []string
	touched := map[int]bool{}
	nops := 1 + rng.Intn(h.Cfg.MaxOps)
	for i := 0; i < nops; i++ {
		ai := h.addrs[rng.Intn(len(h.addrs))]
		if touched[ai] {
			continue
		}
		touched[ai] = true
		cur := model[ai]
		if cur == nil {
			model[ai] = h.randAcct(rng, len(h.slots))
			ops = append(ops, OpCreate)
			continue
		}
		switch r := rng.Intn(10); {
		case r < 2: // plain field change
			c := cur.copy()
			c.Nonce++
			c.Balance.Add(c.Balance, big.NewInt(int64(1+rng.Intn(1000))))
			model[ai] = c
			ops = append(ops, OpModify)
		case r < 6: // storage churn
			c := cur.copy()
			n := 1 + rng.Intn(3)
			for j := 0; j < n; j++ {
				si := h.slots[rng.Intn(len(h.slots))]
				if _, ok := c.Storage[si]; ok && rng.Intn(2) == 0 {
					delete(c.Storage, si)
				} else {
					c.Storage[si] = h.randValue(rng)
				}
			}
			if rng.Intn(3) == 0 {
				c.Nonce++
			}
			model[ai] = c
			ops = append(ops, OpStorage)
		case r < 8: // delete
			delete(model, ai)
			ops = append(ops, OpDelete)
		case r < 9: // destruct + recreate with fewer slots
			model[ai] = h.randAcct(rng, (len(cur.Storage)+1)/2)
			ops = append(ops, OpRecreate)
		default: // wipe the storage, keep the account
			c := cur.copy()
			c.Storage = map[int][]byte{}
			c.Nonce++
			model[ai] = c
			ops = append(ops, OpWipe)
		}
	}
	return model, ops
}

// ---------------------------------------------------------------------------------------
// Edge

// Edge is the difference Parent -> Child. All maps are read-only ground truth; use
// NodeSet / StateSet / AccountsCopy / StoragesCopy to obtain arguments for the code under
// test.
type Edge struct {
	H      *History
	Parent *State
	Child  *State
	Ops    []string // op kinds if produced by Derive

	Accounts      map[common.Hash][]byte                 // addrHash -> new slim RLP, nil = deleted
	Storages      map[common.Hash]map[common.Hash][]byte // addrHash -> slotHash -> new value, nil = deleted
	AccountOrigin map[common.Hash][]byte                 // addrHash -> previous slim RLP, nil = did not exist
	StorageOrigin map[common.Hash]map[common.Hash][]byte // addrHash -> slotHash -> previous value, nil = did not exist

	Nodes       map[common.Hash]map[string][]byte // owner -> path -> new blob, nil = deleted
	NodeOrigins map[common.Hash]map[string][]byte // owner -> path -> previous blob, nil = did not exist
}

// Diff computes the edge between two arbitrary states of the history (a.Root != b.Root
// is not required by Diff itself; an edge between identical states is empty).
func (h *History) Diff(a, b *State) *Edge {
	e := &Edge{H: h, Parent: a, Child: b,
		Accounts: map[common.Hash][]byte{}, Storages: map[common.Hash]map[common.Hash][]byte{},
		AccountOrigin: map[common.Hash][]byte{}, StorageOrigin: map[common.Hash]map[common.Hash][]byte{},
		Nodes: map[common.Hash]map[string][]byte{}, NodeOrigins: map[common.Hash]map[string][]byte{}}
	for k, v := range b.Accounts {
		if old, ok := a.Accounts[k]; !ok || !bytes.Equal(old, v) {
			e.Accounts[k] = v
			e.AccountOrigin[k] = old
		}
	}
	for k, old := range a.Accounts {
		if _, ok := b.Accounts[k]; !ok {
			e.Accounts[k] = nil
			e.AccountOrigin[k] = old
		}
	}
	slot := func(acct, k common.Hash, v, old []byte) {
		if e.Storages[acct] == nil {
			e.Storages[acct] = map[common.Hash][]byte{}
			e.StorageOrigin[acct] = map[common.Hash][]byte{}
		}
		e.Storages[acct][k] = v
		e.StorageOrigin[acct][k] = old
	}
	for acct, m := range b.Storages {
		am := a.Storages[acct]
		for k, v := range m {
			if old, ok := am[k]; !ok || !bytes.Equal(old, v) {
				slot(acct, k, v, old)
			}
		}
	}
	for acct, am := range a.Storages {
		bm := b.Storages[acct]
		for k, old := range am {
			if _, ok := bm[k]; !ok {
				slot(acct, k, nil, old)
			}
		}
	}
	nd := func(owner common.Hash, x, y map[string][]byte) {
		ch, or := refmpt.Diff(x, y)
		if len(ch) > 0 {
			e.Nodes[owner] = ch
			e.NodeOrigins[owner] = or
		}
	}
	nd(common.Hash{}, a.AccountNodes, b.AccountNodes)
	for o, y := range b.StorageNodes {
		nd(o, a.StorageNodes[o], y)
	}
	for o, x := range a.StorageNodes {
		if _, ok := b.StorageNodes[o]; !ok {
			nd(o, x, nil)
		}
	}
	return e
}

// Empty reports whether the edge changes nothing.
func (e *Edge) Empty() bool { return len(e.Accounts) == 0 && len(e.Nodes) == 0 }

// NodeSet builds a fresh trienode.MergedNodeSet (nodes with hashes, deletions, and the
// previous blobs as origins) for pathdb.Database.Update.
func (e *Edge) NodeSet() *trienode.MergedNodeSet {
	m := trienode.NewMergedNodeSet()
	for owner, ch := range e.Nodes {
		set := trienode.NewNodeSet(owner)
		for p, blob := range ch {
			prev := e.NodeOrigins[owner][p]
			if blob == nil {
				set.AddNode([]byte(p), trienode.NewDeletedWithPrev(cp(prev)))
			} else {
				set.AddNode([]byte(p), trienode.NewNodeWithPrev(common.BytesToHash(refmpt.Keccak(blob)), cp(blob), cp(prev)))
			}
		}
		if err := m.Merge(set); err != nil {
			panic(err)
		}
	}
	return m
}

// AccountsCopy returns a fresh copy of the flat account diff (nil = deleted).
func (e *Edge) AccountsCopy() map[common.Hash][]byte {
	m := make(map[common.Hash][]byte, len(e.Accounts))
	for k, v := range e.Accounts {
		m[k] = cp(v)
	}
	return m
}

// StoragesCopy returns a fresh copy of the flat storage diff (nil = deleted).
func (e *Edge) StoragesCopy() map[common.Hash]map[common.Hash][]byte {
	m := make(map[common.Hash]map[common.Hash][]byte, len(e.Storages))
	for a, s := range e.Storages {
		c := make(map[common.Hash][]byte, len(s))
		for k, v := range s {
			c[k] = cp(v)
		}
		m[a] = c
	}
	return m
}

// StateSet builds a fresh *pathdb.StateSetWithOrigin. With rawKeys the storage origins are
// keyed by the raw slot key (state history v1), otherwise by the slot hash (v0).
func (e *Edge) StateSet(rawKeys bool) *pathdb.StateSetWithOrigin {
	ao := make(map[common.Address][]byte, len(e.AccountOrigin))
	for ah, v := range e.AccountOrigin {
		addr, ok := e.H.U.AddrOf(ah)
		if !ok {
			panic("statehist: address preimage missing")
		}
		ao[addr] = cp(v)
	}
	so := make(map[common.Address]map[common.Hash][]byte, len(e.StorageOrigin))
	for ah, m := range e.StorageOrigin {
		addr, _ := e.H.U.AddrOf(ah)
		c := make(map[common.Hash][]byte, len(m))
		for sh, v := range m {
			k := sh
			if rawKeys {
				var ok bool
				if k, ok = e.H.U.SlotKeyOf(sh); !ok {
					panic("statehist: slot preimage missing")
				}
			}
			c[k] = cp(v)
		}
		so[addr] = c
	}
	return pathdb.NewStateSetWithOrigin(e.AccountsCopy(), e.StoragesCopy(), ao, so, rawKeys)
}

func cp(b []byte) []byte {
	if b == nil {
		return nil
	}
	return append([]byte{}, b...)
}

// Shape returns a coarse description of the edge for evidence signatures.
func (e *Edge) Shape() string {
	del, cre := 0, 0
	for k, v := range e.Accounts {
		if v == nil {
			del++
		} else if e.AccountOrigin[k] == nil {
			cre++
		}
	}
	sd := 0
	for _, m := range e.Storages {
		for _, v := range m {
			if v == nil {
				sd++
			}
		}
	}
	return fmt.Sprintf("a%d/c%v/d%v/sd%v", bucket(len(e.Accounts)), cre > 0, del > 0, sd > 0)
}

func bucket(n int) int {
	switch {
	case n <= 1:
		return n
	case n <= 3:
		return 2
	case n <= 8:
		return 4
	}
	return 9
}
