package statehist

import (
	"bytes"
	"fmt"
	"math/rand"
	"testing"

	"github.com/ethereum/go-ethereum/common"
	"github.com/ethereum/go-ethereum/core/rawdb"
	"github.com/ethereum/go-ethereum/core/types"
	"github.com/ethereum/go-ethereum/trie"
	"github.com/ethereum/go-ethereum/trie/trienode"
	"github.com/ethereum/go-ethereum/triedb/pathdb"

	"verif/lib/refmpt"
)

func newDB(t *testing.T, buf int) (*pathdb.Database, func()) {
	disk, err := rawdb.Open(rawdb.NewMemoryDatabase(), rawdb.OpenOptions{Ancient: t.TempDir()})
	if err != nil {
		t.Fatal(err)
	}
	db := pathdb.New(disk, &pathdb.Config{WriteBufferSize: buf, TrieCleanSize: 64 * 1024, StateCleanSize: 64 * 1024,
		NoAsyncFlush: true, NoAsyncGeneration: true}, false)
	return db, func() { db.Close(); disk.Close() }
}

// readBack compares every touched key of the history at root s through the real pathdb.
func readBack(t *testing.T, db *pathdb.Database, h *History, s *State) {
	sr, err := db.StateReader(s.Root)
	if err != nil {
		t.Fatalf("state %d: %v", s.ID, err)
	}
	nr, err := db.NodeReader(s.Root)
	if err != nil {
		t.Fatalf("state %d: %v", s.ID, err)
	}
	for _, a := range h.TouchedAccounts() {
		got, err := sr.(AccountRLPReader).AccountRLP(a)
		if err != nil || !bytes.Equal(got, s.Account(a)) {
			t.Fatalf("state %d account %x: got %x err %v want %x", s.ID, a, got, err, s.Account(a))
		}
	}
	for _, k := range h.TouchedSlots() {
		got, err := sr.Storage(k.Addr, k.Slot)
		if err != nil || !bytes.Equal(got, s.Storage(k.Addr, k.Slot)) {
			t.Fatalf("state %d slot %x/%x: got %x err %v want %x", s.ID, k.Addr, k.Slot, got, err, s.Storage(k.Addr, k.Slot))
		}
	}
	for _, k := range h.TouchedNodes() {
		want := s.Node(k.Owner, []byte(k.Path))
		if want == nil {
			continue
		}
		got, err := nr.Node(k.Owner, []byte(k.Path), common.BytesToHash(keccak(want)))
		if err != nil || !bytes.Equal(got, want) {
			t.Fatalf("state %d node %x/%x: err %v", s.ID, k.Owner, k.Path, err)
		}
	}
}

// TestChainThroughPathdb feeds a chain of transitions into a real pathdb (only through
// exported methods), reads everything back at several roots, commits and compares the raw
// key spaces.
func TestChainThroughPathdb(t *testing.T) {
	for seed := int64(1); seed <= 6; seed++ {
		rng := rand.New(rand.NewSource(seed))
		h := New(Config{Accounts: 6 + int(seed)*3, Slots: 4 + int(seed), BigValues: seed%2 == 0}, rng)
		db, closeDB := newDB(t, 1024*int(seed))
		cur := h.Genesis()
		var chain []*State
		for i := 0; i < 150; i++ {
			e := h.DeriveFresh(cur, rng)
			if err := db.Update(e.Child.Root, e.Parent.Root, uint64(i+1), e.NodeSet(), e.StateSet(i%2 == 0)); err != nil {
				t.Fatalf("update %d: %v", i, err)
			}
			cur = e.Child
			chain = append(chain, cur)
			if i%10 == 9 {
				// the last 128 states are live
				for j := len(chain) - 1; j >= 0 && j > len(chain)-128; j -= 13 {
					readBack(t, db, h, chain[j])
				}
			}
		}
		readBack(t, db, h, cur)
		if err := db.Commit(cur.Root, false); err != nil {
			t.Fatal(err)
		}
		readBack(t, db, h, cur)
		closeDB()
	}
}

// TestRawAfterCommit checks the raw key spaces against the model after a full commit.
func TestRawAfterCommit(t *testing.T) {
	rng := rand.New(rand.NewSource(42))
	h := New(Config{Accounts: 16, Slots: 8}, rng)
	disk, _ := rawdb.Open(rawdb.NewMemoryDatabase(), rawdb.OpenOptions{Ancient: t.TempDir()})
	db := pathdb.New(disk, &pathdb.Config{WriteBufferSize: 2048, NoAsyncFlush: true, NoAsyncGeneration: true}, false)
	defer func() { db.Close(); disk.Close() }()
	cur := h.Genesis()
	for i := 0; i < 80; i++ {
		e := h.DeriveFresh(cur, rng)
		if err := db.Update(e.Child.Root, e.Parent.Root, uint64(i+1), e.NodeSet(), e.StateSet(true)); err != nil {
			t.Fatal(err)
		}
		cur = e.Child
		if i%20 == 19 {
			if err := db.Commit(cur.Root, false); err != nil {
				t.Fatal(err)
			}
			if d := cur.DiffRaw(ScanRaw(disk), 10); len(d) > 0 {
				t.Fatalf("raw mismatch after commit %d: %v", i, d)
			}
		}
	}
}

// TestNodeDiffVsTrieCommit applies the flat changes of every edge with go-ethereum's trie
// package on top of the parent state (served by pathdb) and compares the committed node
// set and origins with the edge computed by refmpt.Diff.
func TestNodeDiffVsTrieCommit(t *testing.T) {
	for seed := int64(1); seed <= 5; seed++ {
		rng := rand.New(rand.NewSource(seed * 77))
		h := New(Config{Accounts: 10 + int(seed)*4, Slots: 3 + 2*int(seed), MaxOps: 6}, rng)
		db, closeDB := newDB(t, 4096)
		cur := h.Genesis()
		for i := 0; i < 120; i++ {
			var e *Edge
			if i%17 == 16 && len(h.States) > 5 {
				// edge between two arbitrary states: jump to an older state on a new branch
				tgt := h.States[1+rng.Intn(len(h.States)-1)]
				if tgt == cur {
					continue
				}
				e = h.Diff(cur, tgt)
			} else {
				e = h.Derive(cur, rng)
			}
			if err := crossCheck(db, e); err != nil {
				t.Fatalf("seed %d step %d (%v): %v", seed, i, e.Ops, err)
			}
			if _, err := db.StateReader(e.Child.Root); err != nil { // not present yet
				if err := db.Update(e.Child.Root, e.Parent.Root, uint64(i+1), e.NodeSet(), e.StateSet(true)); err != nil {
					t.Fatal(err)
				}
			}
			if _, err := db.StateReader(e.Child.Root); err != nil {
				// the target was flattened away earlier; restart from a live state
				continue
			}
			cur = e.Child
		}
		closeDB()
	}
}

func crossCheck(db *pathdb.Database, e *Edge) error {
	merged := trienode.NewMergedNodeSet()
	parent := e.Parent
	// storage tries first
	for ah, slots := range e.Storages {
		oldRoot := parent.StorageRoot(ah)
		tr, err := trie.New(trie.StorageTrieID(parent.Root, ah, oldRoot), db)
		if err != nil {
			return fmt.Errorf("open storage trie: %w", err)
		}
		for k, v := range slots {
			if v != nil {
				if err := tr.Update(k[:], v); err != nil {
					return err
				}
			}
		}
		for k, v := range slots {
			if v == nil {
				if err := tr.Delete(k[:]); err != nil {
					return err
				}
			}
		}
		root, set := tr.Commit(false)
		if root != e.Child.StorageRoot(ah) {
			return fmt.Errorf("storage root of %x: trie %x model %x", ah, root, e.Child.StorageRoot(ah))
		}
		if set != nil {
			merged.Merge(set)
		}
	}
	tr, err := trie.New(trie.StateTrieID(parent.Root), db)
	if err != nil {
		return err
	}
	for ah, slim := range e.Accounts {
		if slim == nil {
			continue
		}
		full, err := types.FullAccountRLP(slim)
		if err != nil {
			return err
		}
		mine, _ := SlimToFull(slim)
		if !bytes.Equal(full, mine) {
			return fmt.Errorf("slim->full differs")
		}
		if err := tr.Update(ah[:], full); err != nil {
			return err
		}
	}
	for ah, slim := range e.Accounts {
		if slim == nil {
			if err := tr.Delete(ah[:]); err != nil {
				return err
			}
		}
	}
	root, set := tr.Commit(false)
	if root != e.Child.Root {
		return fmt.Errorf("state root: trie %x model %x", root, e.Child.Root)
	}
	if set != nil {
		merged.Merge(set)
	}
	// compare
	mine := e.NodeSet()
	for owner, s := range merged.Sets {
		ms := mine.Sets[owner]
		for p, n := range s.Nodes {
			var mn *trienode.Node
			if ms != nil {
				mn = ms.Nodes[p]
			}
			if mn == nil {
				// trie.Commit may report a node whose blob did not change
				if bytes.Equal(n.Blob, s.Origins[p]) {
					continue
				}
				return fmt.Errorf("owner %x path %x: in trie.Commit set only (deleted=%v)", owner, p, n.IsDeleted())
			}
			if !bytes.Equal(mn.Blob, n.Blob) || mn.Hash != n.Hash {
				return fmt.Errorf("owner %x path %x: blob/hash differ", owner, p)
			}
			if !bytes.Equal(ms.Origins[p], s.Origins[p]) {
				return fmt.Errorf("owner %x path %x: origin differs: %x vs %x", owner, p, ms.Origins[p], s.Origins[p])
			}
		}
	}
	for owner, ms := range mine.Sets {
		s := merged.Sets[owner]
		for p := range ms.Nodes {
			if s == nil || s.Nodes[p] == nil {
				return fmt.Errorf("owner %x path %x: in statehist edge only", owner, p)
			}
		}
	}
	return nil
}

func keccak(b []byte) []byte { return refmpt.Keccak(b) }
