// Package refevm is an independent, deliberately naive model of the Ethereum state
// transition for the Cancun, Prague and Osaka rule sets: an EVM interpreter (big.Int words,
// byte-slice memory, slice stack, deep-copy snapshots, per-opcode gas written out from the
// yellow paper and the EIPs), the transaction-level rules (validity, intrinsic/floor gas,
// EIP-7702 authorisations, refunds, fee settlement) and the block-level rules that the
// transition-tool interface exposes (base fee / excess blob gas derivation, EIP-4788/2935
// system calls, withdrawals, EIP-6110/7002/7251 requests, roots).
//
// It is NOT the Ethereum Execution Layer Specification (EELS); it is the substitute oracle
// used where EELS cannot be installed. It shares no code with go-ethereum's core/vm,
// core/state or core/state_transition. Trusted components (stated in every evidence file):
// precompile *outputs* for bn254 (0x06-0x08), KZG point evaluation (0x0a), BLS12-381
// (0x0b-0x11) and P-256 (0x100) are taken from go-ethereum's implementations (gas and
// framing are modelled here); secp256k1 recovery uses decred/secp256k1; hashes use
// x/crypto and the standard library.
package refevm

import (
	"bytes"
	"encoding/hex"
	"math/big"
	"sort"

	"verif/lib/refmpt"
	"verif/lib/refrlp"
)

// Address is a 20-byte account address.
type Address [20]byte

// Hash is a 32-byte word used as storage key, hash or topic.
type Hash [32]byte

func (a Address) Hex() string { return "0x" + hex.EncodeToString(a[:]) }
func (h Hash) Hex() string    { return "0x" + hex.EncodeToString(h[:]) }

// BytesToAddress takes the low-order 20 bytes.
func BytesToAddress(b []byte) (a Address) {
	if len(b) > 20 {
		b = b[len(b)-20:]
	}
	copy(a[20-len(b):], b)
	return
}

// BytesToHash left-pads / truncates to 32 bytes.
func BytesToHash(b []byte) (h Hash) {
	if len(b) > 32 {
		b = b[len(b)-32:]
	}
	copy(h[32-len(b):], b)
	return
}

// WordToAddress takes a 256-bit word modulo 2^160.
func WordToAddress(w *big.Int) Address { return BytesToAddress(word32(w)) }

// WordToHash is the 32-byte big-endian form of w.
func WordToHash(w *big.Int) Hash { return BytesToHash(word32(w)) }

// Big returns the hash as an unsigned integer.
func (h Hash) Big() *big.Int { return new(big.Int).SetBytes(h[:]) }

// Big returns the address as an unsigned integer.
func (a Address) Big() *big.Int { return new(big.Int).SetBytes(a[:]) }

// Fork selects the rule set.
type Fork int

const (
	Cancun Fork = iota
	Prague
	Osaka
)

func (f Fork) String() string { return [...]string{"Cancun", "Prague", "Osaka"}[f] }

// ParseFork maps a t8n fork name to a Fork.
func ParseFork(s string) (Fork, bool) {
	switch s {
	case "Cancun":
		return Cancun, true
	case "Prague":
		return Prague, true
	case "Osaka":
		return Osaka, true
	}
	return 0, false
}

var (
	two256  = new(big.Int).Lsh(big.NewInt(1), 256)
	two255  = new(big.Int).Lsh(big.NewInt(1), 255)
	maxWord = new(big.Int).Sub(two256, big.NewInt(1))
	bigZero = big.NewInt(0)
	bigOne  = big.NewInt(1)
	big32   = big.NewInt(32)
)

func bi(x uint64) *big.Int { return new(big.Int).SetUint64(x) }

// word32 is the 32-byte big-endian form of w (w < 2^256).
func word32(w *big.Int) []byte {
	b := make([]byte, 32)
	w.FillBytes(b)
	return b
}

func wrap(x *big.Int) *big.Int {
	if x.Sign() < 0 || x.Cmp(two256) >= 0 {
		x.Mod(x, two256) // Go's Mod is Euclidean: result in [0, 2^256)
	}
	return x
}

// signed interprets a word as two's complement.
func signed(w *big.Int) *big.Int {
	if w.Cmp(two255) >= 0 {
		return new(big.Int).Sub(w, two256)
	}
	return new(big.Int).Set(w)
}

// Keccak256 hashes the concatenation of the arguments.
func Keccak256(b ...[]byte) []byte { return refmpt.Keccak(b...) }

// ---------------------------------------------------------------------------------------
// World state

// Account is one account of the model state. Storage holds non-zero slots only.
type Account struct {
	Nonce   uint64
	Balance *big.Int
	Code    []byte
	Storage map[Hash]*big.Int
}

func (a *Account) copy() *Account {
	c := &Account{Nonce: a.Nonce, Balance: new(big.Int).Set(a.Balance), Code: a.Code}
	c.Storage = make(map[Hash]*big.Int, len(a.Storage))
	for k, v := range a.Storage {
		c.Storage[k] = v // words are never mutated in place
	}
	return c
}

// Empty is the EIP-161 emptiness predicate.
func (a *Account) Empty() bool { return a.Nonce == 0 && a.Balance.Sign() == 0 && len(a.Code) == 0 }

// State is the set of existing accounts.
type State map[Address]*Account

// Copy is a deep copy.
func (s State) Copy() State {
	c := make(State, len(s))
	for a, acc := range s {
		c[a] = acc.copy()
	}
	return c
}

// Get returns the account or nil.
func (s State) Get(a Address) *Account { return s[a] }

// GetOrNew returns the account, creating an empty one if absent.
func (s State) GetOrNew(a Address) *Account {
	acc := s[a]
	if acc == nil {
		acc = &Account{Balance: new(big.Int), Storage: map[Hash]*big.Int{}}
		s[a] = acc
	}
	return acc
}

// Root is the state root through the reference trie: keccak(address) -> rlp([nonce,
// balance, storageRoot, codeHash]).
func (s State) Root() Hash {
	m := make(map[string][]byte, len(s))
	for addr, acc := range s {
		m[string(Keccak256(addr[:]))] = acc.rlp()
	}
	return BytesToHash(refmpt.Build(m).Root)
}

// StorageRoot is the storage trie root of one account.
func (a *Account) StorageRoot() []byte {
	m := make(map[string][]byte, len(a.Storage))
	for k, v := range a.Storage {
		if v.Sign() == 0 {
			continue
		}
		m[string(Keccak256(k[:]))] = refrlp.EncodeString(v.Bytes())
	}
	return refmpt.Build(m).Root
}

func (a *Account) rlp() []byte {
	return refrlp.EncodeListRaw(
		refrlp.EncodeUint(a.Nonce),
		refrlp.EncodeString(a.Balance.Bytes()),
		refrlp.EncodeString(a.StorageRoot()),
		refrlp.EncodeString(Keccak256(a.Code)),
	)
}

// Addresses returns the existing addresses in ascending order.
func (s State) Addresses() []Address {
	out := make([]Address, 0, len(s))
	for a := range s {
		out = append(out, a)
	}
	sort.Slice(out, func(i, j int) bool { return bytes.Compare(out[i][:], out[j][:]) < 0 })
	return out
}

// Log is one emitted log entry.
type Log struct {
	Address Address
	Topics  []Hash
	Data    []byte
}

type slotKey struct {
	A Address
	K Hash
}

// world is the state plus the transaction-scoped substate; a snapshot is a deep copy of it.
type world struct {
	accts      State
	transient  map[slotKey]*big.Int
	warmAddr   map[Address]bool
	warmSlot   map[slotKey]bool
	refund     int64
	logs       []Log
	destructed map[Address]bool
	created    map[Address]bool
	touched    map[Address]bool
}

func newWorld(s State) *world {
	return &world{accts: s, transient: map[slotKey]*big.Int{}, warmAddr: map[Address]bool{}, warmSlot: map[slotKey]bool{},
		destructed: map[Address]bool{}, created: map[Address]bool{}, touched: map[Address]bool{}}
}

func (w *world) copy() *world {
	c := &world{accts: w.accts.Copy(), refund: w.refund}
	c.transient = make(map[slotKey]*big.Int, len(w.transient))
	for k, v := range w.transient {
		c.transient[k] = v
	}
	c.warmAddr = make(map[Address]bool, len(w.warmAddr))
	for k := range w.warmAddr {
		c.warmAddr[k] = true
	}
	c.warmSlot = make(map[slotKey]bool, len(w.warmSlot))
	for k := range w.warmSlot {
		c.warmSlot[k] = true
	}
	c.logs = append([]Log(nil), w.logs...)
	c.destructed = make(map[Address]bool, len(w.destructed))
	for k := range w.destructed {
		c.destructed[k] = true
	}
	c.created = make(map[Address]bool, len(w.created))
	for k := range w.created {
		c.created[k] = true
	}
	c.touched = make(map[Address]bool, len(w.touched))
	for k := range w.touched {
		c.touched[k] = true
	}
	return c
}

// restore makes w equal to the snapshot s.
func (w *world) restore(s *world) { *w = *s }

func (w *world) exists(a Address) bool { return w.accts[a] != nil }

// dead: non-existent or empty (EIP-161).
func (w *world) dead(a Address) bool {
	acc := w.accts[a]
	return acc == nil || acc.Empty()
}

func (w *world) balance(a Address) *big.Int {
	if acc := w.accts[a]; acc != nil {
		return acc.Balance
	}
	return bigZero
}

func (w *world) code(a Address) []byte {
	if acc := w.accts[a]; acc != nil {
		return acc.Code
	}
	return nil
}

func (w *world) nonce(a Address) uint64 {
	if acc := w.accts[a]; acc != nil {
		return acc.Nonce
	}
	return 0
}

func (w *world) storage(a Address, k Hash) *big.Int {
	if acc := w.accts[a]; acc != nil {
		if v := acc.Storage[k]; v != nil {
			return v
		}
	}
	return bigZero
}

func (w *world) setStorage(a Address, k Hash, v *big.Int) {
	acc := w.accts.GetOrNew(a)
	if v.Sign() == 0 {
		delete(acc.Storage, k)
	} else {
		acc.Storage[k] = v
	}
}

// touch marks an existing account as touched (an absent account stays absent: touching
// does not create accounts after EIP-161).
func (w *world) touch(a Address) {
	if w.accts[a] != nil {
		w.touched[a] = true
	}
}

// addBalance credits v; crediting zero to an absent account does not create it.
func (w *world) addBalance(a Address, v *big.Int) {
	if v.Sign() == 0 {
		w.touch(a)
		return
	}
	acc := w.accts.GetOrNew(a)
	acc.Balance = new(big.Int).Add(acc.Balance, v)
	w.touched[a] = true
}

func (w *world) subBalance(a Address, v *big.Int) {
	if v.Sign() == 0 {
		return
	}
	acc := w.accts.GetOrNew(a)
	acc.Balance = new(big.Int).Sub(acc.Balance, v)
}

// commitTo makes the caller-visible map equal to the world's accounts (a rollback replaces
// the world's map by the snapshot's).
func (w *world) commitTo(s State) {
	if len(s) > 0 || len(w.accts) > 0 {
		tmp := make(State, len(w.accts))
		for k, v := range w.accts {
			tmp[k] = v
		}
		for k := range s {
			delete(s, k)
		}
		for k, v := range tmp {
			s[k] = v
		}
	}
	w.accts = s
}

// endTx applies the end-of-transaction rules: delete self-destructed accounts (EIP-6780:
// only those created in this transaction are in the set), delete touched empty accounts
// (EIP-161), and drop the transaction-scoped substate.
func (w *world) endTx() {
	for a := range w.destructed {
		delete(w.accts, a)
	}
	for a := range w.touched {
		if acc := w.accts[a]; acc != nil && acc.Empty() {
			delete(w.accts, a)
		}
	}
}
