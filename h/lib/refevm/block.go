package refevm

import (
	"crypto/sha256"
	"fmt"
	"math/big"

	"verif/lib/refmpt"
)

// Well-known addresses.
var (
	SystemAddress        = mustAddr("fffffffffffffffffffffffffffffffffffffffe")
	BeaconRootsAddress   = mustAddr("000F3df6D732807Ef1319fB7B8bB8522d0Beac02")
	HistoryAddress       = mustAddr("0000F90827F1C53a10cb7A02335B175320002935")
	WithdrawalReqAddress = mustAddr("00000961Ef480Eb55e80D19ad83579A64c007002")
	ConsolidationAddress = mustAddr("0000BBdDc7CE488642fb579F8B00f3a590007251")
	DepositAddress       = mustAddr("00000000219ab540356cBB839Cbe05303d7705Fa")
	DepositEventTopic    = mustHash("649bbc62d0e31342afea4e5cd82d4049e7e1ee912fc0889aa790803be39038c5")
)

func mustAddr(s string) Address {
	b, ok := new(big.Int).SetString(s, 16)
	if !ok {
		panic(s)
	}
	return BytesToAddress(b.Bytes())
}

func mustHash(s string) Hash {
	b, ok := new(big.Int).SetString(s, 16)
	if !ok {
		panic(s)
	}
	return BytesToHash(b.Bytes())
}

// Withdrawal is one EIP-4895 withdrawal (amount in gwei).
type Withdrawal struct {
	Index, Validator uint64
	Address          Address
	Amount           uint64
}

// Env is the block environment in transition-tool terms.
type Env struct {
	ChainID   *big.Int
	Coinbase  Address
	GasLimit  uint64
	Number    uint64
	Timestamp uint64
	Random    Hash

	BaseFee        *big.Int // nil: derived from the parent fields (EIP-1559)
	ParentBaseFee  *big.Int
	ParentGasUsed  uint64
	ParentGasLimit uint64

	ExcessBlobGas       *uint64 // nil: derived from the parent fields when both are present
	ParentExcessBlobGas *uint64
	ParentBlobGasUsed   *uint64

	BlockHashes      map[uint64]Hash // nil: none provided
	Withdrawals      []Withdrawal
	ParentBeaconRoot *Hash
	Quirks           Quirks // all false in the oracle (see Quirks)
}

// Receipt is the consensus part of a receipt plus the per-transaction gas.
type Receipt struct {
	Type     int
	Status   uint64
	CumGas   uint64
	GasUsed  uint64
	Logs     []Log
	Bloom    [256]byte
	TxIndex  int // index among the input transactions
	Contract *Address
}

// BlockResult is what the transition produces besides the post state.
type BlockResult struct {
	// ToolError is non-empty when the run is an error at the interface level (missing block
	// hash input, invalid deposit log / failing request system call = invalid block).
	ToolError string

	StateRoot       Hash
	Receipts        []Receipt
	ReceiptsRoot    Hash
	LogsBloom       [256]byte
	LogsHash        Hash
	Rejected        []int
	RejectReasons   []string
	GasUsed         uint64
	BaseFee         *big.Int
	ExcessBlobGas   *uint64
	BlobGasUsed     *uint64
	WithdrawalsRoot Hash
	Requests        [][]byte // type byte || data, empty ones left out (Prague+; nil before)
	RequestsHash    *Hash
	TxResults       []*TxResult
}

// CalcBaseFee is the EIP-1559 update rule.
func CalcBaseFee(parentBaseFee *big.Int, parentGasUsed, parentGasLimit uint64) *big.Int {
	target := parentGasLimit / 2
	switch {
	case parentGasUsed == target:
		return new(big.Int).Set(parentBaseFee)
	case parentGasUsed > target:
		d := new(big.Int).Mul(parentBaseFee, bi(parentGasUsed-target))
		d.Div(d, bi(target))
		d.Div(d, big.NewInt(8))
		if d.Sign() == 0 {
			d.SetInt64(1)
		}
		return d.Add(d, parentBaseFee)
	default:
		d := new(big.Int).Mul(parentBaseFee, bi(target-parentGasUsed))
		d.Div(d, bi(target))
		d.Div(d, big.NewInt(8))
		return d.Sub(parentBaseFee, d)
	}
}

// CalcExcessBlobGas is the EIP-4844 update rule with the EIP-7918 reserve price (Osaka).
func CalcExcessBlobGas(f Fork, parentExcess, parentUsed uint64, parentBaseFee *big.Int) uint64 {
	bp := f.Blob()
	target := bp.Target * gasPerBlob
	if parentExcess+parentUsed < target {
		return 0
	}
	if f >= Osaka {
		reserve := new(big.Int).Mul(big.NewInt(1<<13), parentBaseFee)
		blobPrice := new(big.Int).Mul(big.NewInt(gasPerBlob), BlobBaseFee(f, parentExcess))
		if reserve.Cmp(blobPrice) > 0 {
			return parentExcess + parentUsed*(bp.Max-bp.Target)/bp.Max
		}
	}
	return parentExcess + parentUsed - target
}

// Bloom adds the log's address and topics to a 2048-bit filter.
func bloomAdd(b *[256]byte, data []byte) {
	h := Keccak256(data)
	for i := 0; i < 6; i += 2 {
		bit := (uint(h[i])<<8 | uint(h[i+1])) & 2047
		b[255-bit/8] |= 1 << (bit % 8)
	}
}

// LogsBloom computes the bloom filter of a list of logs.
func LogsBloom(logs []Log) (b [256]byte) {
	for _, l := range logs {
		bloomAdd(&b, l.Address[:])
		for _, t := range l.Topics {
			bloomAdd(&b, t[:])
		}
	}
	return
}

func rlpLogs(logs []Log) []byte {
	items := make([][]byte, len(logs))
	for i, l := range logs {
		ts := make([][]byte, len(l.Topics))
		for j, t := range l.Topics {
			ts[j] = rlpBytes(t[:])
		}
		items[i] = rlpList(rlpBytes(l.Address[:]), rlpList(ts...), rlpBytes(l.Data))
	}
	return rlpList(items...)
}

func (r *Receipt) encode() []byte {
	body := rlpList(rlpUint(r.Status), rlpUint(r.CumGas), rlpBytes(r.Bloom[:]), rlpLogs(r.Logs))
	if r.Type == 0 {
		return body
	}
	return append([]byte{byte(r.Type)}, body...)
}

// indexedRoot is the root of the trie rlp(i) -> item_i.
func indexedRoot(items [][]byte) Hash {
	m := map[string][]byte{}
	for i, it := range items {
		m[string(rlpUint(uint64(i)))] = it
	}
	return BytesToHash(refmpt.Build(m).Root)
}

// systemCall runs a system transaction (EIP-4788 style): caller SystemAddress, 30M gas, no
// value, no fee. It returns the output and whether the call succeeded; absent code is
// reported through hasCode.
func systemCall(state State, env *BlockEnv, target Address, data []byte, tracer func(*Step), cov *Coverage) (out []byte, ok bool, hasCode bool, e *EVM) {
	w := newWorld(state)
	code := w.code(target)
	if len(code) == 0 {
		return nil, false, false, nil
	}
	e = &EVM{B: env, T: TxEnv{Origin: SystemAddress, GasPrice: new(big.Int)}, w: w, Tracer: tracer, Cov: cov}
	e.orig = w.accts.Copy()
	w.warmAddr[SystemAddress] = true
	w.warmAddr[target] = true
	for _, p := range PrecompileAddresses(env.Fork) {
		w.warmAddr[p] = true
	}
	r := e.callMessage(&Message{Caller: SystemAddress, Self: target, CodeAddr: target, Value: new(big.Int), Data: data, Gas: 30_000_000, Code: code})
	w.endTx()
	w.commitTo(state)
	return r.Output, r.OK, true, e
}

// parseDeposit validates the ABI layout of a deposit event (EIP-6110) and returns the
// 192-byte deposit request.
func parseDeposit(d []byte, checkLayout bool) ([]byte, bool) {
	if len(d) != 576 {
		return nil, false
	}
	word := func(off int) *big.Int { return new(big.Int).SetBytes(d[off : off+32]) }
	want := [][2]int64{{0, 160}, {32, 256}, {64, 320}, {96, 384}, {128, 512}, // offsets
		{160, 48}, {256, 32}, {320, 8}, {384, 96}, {512, 8}} // sizes
	for _, w := range want {
		if checkLayout && word(int(w[0])).Cmp(big.NewInt(w[1])) != 0 {
			return nil, false
		}
	}
	var out []byte
	out = append(out, d[192:240]...)
	out = append(out, d[288:320]...)
	out = append(out, d[352:360]...)
	out = append(out, d[416:512]...)
	out = append(out, d[544:552]...)
	return out, true
}

// TraceSink receives the trace of transaction i (index among the input transactions;
// negative numbers denote system calls).
type TraceSink func(txIndex int) func(*Step)

// Transition runs the block-level state transition on a copy of pre.
func Transition(f Fork, pre State, env *Env, txs []*Tx, trace TraceSink, cov *Coverage) (*BlockResult, State) {
	state := pre.Copy()
	res := &BlockResult{}
	be := &BlockEnv{Fork: f, ChainID: env.ChainID, Coinbase: env.Coinbase, Number: env.Number, Timestamp: env.Timestamp,
		GasLimit: env.GasLimit, Random: env.Random, Quirks: env.Quirks}
	if be.ChainID == nil {
		be.ChainID = big.NewInt(1)
	}
	be.BlockHash = func(n uint64) (Hash, bool) {
		if env.BlockHashes == nil {
			return Hash{}, false
		}
		h, ok := env.BlockHashes[n]
		return h, ok
	}
	// 1. base fee and blob fee
	if env.BaseFee != nil {
		be.BaseFee = new(big.Int).Set(env.BaseFee)
	} else if env.ParentBaseFee != nil {
		be.BaseFee = CalcBaseFee(env.ParentBaseFee, env.ParentGasUsed, env.ParentGasLimit)
	} else {
		res.ToolError = "missing base fee"
		return res, state
	}
	res.BaseFee = be.BaseFee
	var excess uint64
	haveBlob := false
	if env.ExcessBlobGas != nil {
		excess, haveBlob = *env.ExcessBlobGas, true
	} else if env.ParentExcessBlobGas != nil && env.ParentBlobGasUsed != nil {
		pbf := env.ParentBaseFee
		if pbf == nil {
			pbf = new(big.Int)
		}
		excess, haveBlob = CalcExcessBlobGas(f, *env.ParentExcessBlobGas, *env.ParentBlobGasUsed, pbf), true
	}
	if haveBlob {
		be.BlobBaseFee = BlobBaseFee(f, excess)
	}
	tr := func(i int) func(*Step) {
		if trace == nil {
			return nil
		}
		return trace(i)
	}
	// 2. system calls before the transactions
	if env.ParentBeaconRoot != nil {
		systemCall(state, be, BeaconRootsAddress, env.ParentBeaconRoot[:], tr(-1), cov)
	}
	if f >= Prague && env.BlockHashes != nil && env.Number > 0 {
		ph := env.BlockHashes[env.Number-1]
		systemCall(state, be, HistoryAddress, ph[:], tr(-2), cov)
	}
	// 3. transactions
	bc := &BlockCtx{GasLeft: env.GasLimit}
	var allLogs []Log
	var encReceipts [][]byte
	for i, tx := range txs {
		// a rejected transaction leaves no trace in the state: run on a copy
		trial := state.Copy()
		tbc := *bc
		r, e := ApplyTx(trial, be, &tbc, tx, tr(i), cov)
		res.TxResults = append(res.TxResults, r)
		if r.Rejected {
			res.Rejected = append(res.Rejected, i)
			res.RejectReasons = append(res.RejectReasons, r.Reason)
			continue
		}
		if e != nil && e.MissingBlockhash {
			res.ToolError = "missing blockhash"
			return res, state
		}
		state, *bc = trial, tbc
		res.GasUsed += r.GasUsed
		rc := Receipt{Type: tx.Type, Status: r.Status, CumGas: res.GasUsed, GasUsed: r.GasUsed, Logs: r.Logs, TxIndex: i, Contract: r.Created}
		rc.Bloom = LogsBloom(r.Logs)
		res.Receipts = append(res.Receipts, rc)
		encReceipts = append(encReceipts, rc.encode())
		allLogs = append(allLogs, r.Logs...)
	}
	res.ReceiptsRoot = indexedRoot(encReceipts)
	res.LogsBloom = LogsBloom(allLogs)
	res.LogsHash = BytesToHash(Keccak256(rlpLogs(allLogs)))
	if haveBlob {
		res.ExcessBlobGas = &excess
		used := bc.BlobGasUsed
		res.BlobGasUsed = &used
	}
	// 4. withdrawals
	{
		w := newWorld(state)
		var enc [][]byte
		for _, wd := range env.Withdrawals {
			w.addBalance(wd.Address, new(big.Int).Mul(bi(wd.Amount), big.NewInt(1_000_000_000)))
			enc = append(enc, rlpList(rlpUint(wd.Index), rlpUint(wd.Validator), rlpBytes(wd.Address[:]), rlpUint(wd.Amount)))
		}
		w.endTx()
		res.WithdrawalsRoot = indexedRoot(enc)
	}
	// 5. requests (EIP-7685: 6110, 7002, 7251)
	if f >= Prague {
		res.Requests = [][]byte{}
		var deposits []byte
		for _, l := range allLogs {
			if l.Address == DepositAddress && len(l.Topics) > 0 && l.Topics[0] == DepositEventTopic {
				d, ok := parseDeposit(l.Data, !env.Quirks.NoDepositLayoutCheck)
				if !ok {
					res.ToolError = "invalid deposit log layout"
					if len(l.Data) != 576 {
						res.ToolError = "invalid deposit log length"
					}
					return res, state
				}
				deposits = append(deposits, d...)
			}
		}
		if len(deposits) > 0 {
			res.Requests = append(res.Requests, append([]byte{0}, deposits...))
		}
		for k, target := range []Address{WithdrawalReqAddress, ConsolidationAddress} {
			out, ok, hasCode, _ := systemCall(state, be, target, nil, tr(-3-k), cov)
			if !hasCode || !ok {
				res.ToolError = fmt.Sprintf("system call to %s failed (code present: %v)", target.Hex(), hasCode)
				return res, state
			}
			if len(out) > 0 {
				res.Requests = append(res.Requests, append([]byte{byte(1 + k)}, out...))
			}
		}
		h := sha256.New()
		for _, rq := range res.Requests {
			s := sha256.Sum256(rq)
			h.Write(s[:])
		}
		rh := BytesToHash(h.Sum(nil))
		res.RequestsHash = &rh
	}
	res.StateRoot = state.Root()
	return res, state
}
