package refevm

import (
	"bytes"
	"encoding/binary"
	"encoding/hex"
	"math/big"
	"testing"

	"golang.org/x/crypto/blake2b"
)

func unhex(s string) []byte {
	b, err := hex.DecodeString(s)
	if err != nil {
		panic(err)
	}
	return b
}

func TestBlake2F(t *testing.T) {
	// BLAKE2b-512("abc") through F with the parameter block of an unkeyed 64-byte digest
	h := blake2IV
	h[0] ^= 0x01010040
	var m [16]uint64
	buf := make([]byte, 128)
	copy(buf, "abc")
	for i := range m {
		m[i] = binary.LittleEndian.Uint64(buf[8*i:])
	}
	Blake2F(12, &h, &m, 3, 0, true)
	out := make([]byte, 64)
	for i := range h {
		binary.LittleEndian.PutUint64(out[8*i:], h[i])
	}
	want := blake2b.Sum512([]byte("abc"))
	if !bytes.Equal(out, want[:]) {
		t.Fatalf("blake2 F: %x want %x", out, want)
	}
	// the same through the precompile framing (EIP-152 vector 5)
	in := make([]byte, 213)
	binary.BigEndian.PutUint32(in, 12)
	h0 := blake2IV
	h0[0] ^= 0x01010040
	for i := range h0 {
		binary.LittleEndian.PutUint64(in[4+8*i:], h0[i])
	}
	copy(in[68:], "abc")
	in[196] = 3
	in[212] = 1
	if hex.EncodeToString(in[:12]) != "0000000c48c9bdf267e6096a" {
		t.Fatalf("vector prefix %x", in[:12])
	}
	o, ok := RunPrecompile(Cancun, addrN(9), in)
	if !ok || !bytes.Equal(o, want[:]) {
		t.Fatalf("eip-152 vector: %x ok=%v", o, ok)
	}
	if g := PrecompileGas(Cancun, addrN(9), in); g.Uint64() != 12 {
		t.Fatalf("blake2f gas %v", g)
	}
}

func TestAddresses(t *testing.T) {
	s := BytesToAddress(unhex("6ac7ea33f8831ea9dcc53393aaa88b25a785dbf0"))
	if a := CreateAddress(s, 0); a.Hex() != "0xcd234a471b72ba2f1ccf0a70fcaba648a5eecd8d" {
		t.Fatalf("create address nonce 0: %s", a.Hex())
	}
	if a := CreateAddress(s, 1); a.Hex() != "0x343c43a37d37dff08ae8c4a11544c718abb4fcf8" {
		t.Fatalf("create address nonce 1: %s", a.Hex())
	}
	// EIP-1014 example 1
	if a := Create2Address(Address{}, Hash{}, []byte{0}); a.Hex() != "0x4d1a2e2bb4f88f0250f26ffff098b0b30b26bf38" {
		t.Fatalf("create2: %s", a.Hex())
	}
}

func TestEcrecoverRoundTrip(t *testing.T) {
	key := Keccak256([]byte("k"))
	h := Keccak256([]byte("msg"))
	v, r, s := SignRecoverable(key, h)
	a, ok := Ecrecover(h, v, r, s)
	if !ok || a != AddressOfKey(key) {
		t.Fatalf("recover mismatch")
	}
	in := append(append(append(append([]byte{}, h...), word32(big.NewInt(int64(27+v)))...), word32(r)...), word32(s)...)
	out, ok := RunPrecompile(Cancun, addrN(1), in)
	if !ok || !bytes.Equal(out[12:], a[:]) {
		t.Fatalf("ecrecover precompile: %x", out)
	}
}

func TestFees(t *testing.T) {
	if BlobBaseFee(Cancun, 0).Int64() != 1 {
		t.Fatal("blob base fee at 0")
	}
	// EIP-4844: excess of one update fraction ~ e
	if v := FakeExponential(big.NewInt(1000), big.NewInt(1), big.NewInt(1)).Int64(); v < 2715 || v > 2719 {
		t.Fatalf("fake exponential e*1000 = %d", v)
	}
	if v := CalcBaseFee(big.NewInt(1000), 20, 20); v.Int64() != 1125 {
		t.Fatalf("base fee full block: %v", v)
	}
	if v := CalcBaseFee(big.NewInt(1000), 0, 20); v.Int64() != 875 {
		t.Fatalf("base fee empty block: %v", v)
	}
}

// run executes code at an address with ample gas and returns the result and the storage.
func runCode(t *testing.T, f Fork, code []byte, gas uint64) (*ExecResult, State) {
	self := BytesToAddress([]byte{0xaa})
	from := BytesToAddress([]byte{0xbb})
	st := State{}
	st.GetOrNew(self).Code = code
	st.GetOrNew(from).Balance = big.NewInt(1e18)
	env := &BlockEnv{Fork: f, ChainID: big.NewInt(1), BaseFee: big.NewInt(7), Number: 10, GasLimit: 30_000_000,
		BlockHash: func(uint64) (Hash, bool) { return Hash{}, true }}
	r := Exec(st, env, &ExecMsg{From: from, To: &self, Gas: gas}, ExecOpts{Finalise: true})
	return r, st
}

func TestSimplePrograms(t *testing.T) {
	// PUSH1 2 PUSH1 3 ADD PUSH0 SSTORE : 3+3+3+2+22100
	r, st := runCode(t, Cancun, unhex("60026003015f55"), 100000)
	if !r.OK || 100000-r.GasLeft != 3+3+3+2+22100 {
		t.Fatalf("gas used %d ok=%v err=%s", 100000-r.GasLeft, r.OK, r.Err)
	}
	if v := st[BytesToAddress([]byte{0xaa})].Storage[Hash{}]; v == nil || v.Int64() != 5 {
		t.Fatalf("slot 0 = %v", v)
	}
	// CLZ only in Osaka
	r, _ = runCode(t, Prague, unhex("60011e"), 1000)
	if r.OK || r.Err != HaltInvalidOp {
		t.Fatalf("CLZ before Osaka: %+v", r)
	}
	r, _ = runCode(t, Osaka, unhex("60011e5f5260205ff3"), 1000)
	if !r.OK || new(big.Int).SetBytes(r.Output).Int64() != 255 {
		t.Fatalf("CLZ(1): %+v", r)
	}
	// memory expansion: MSTORE at 0x20 -> 2 words: 3 + (3*2) ; PUSH1 PUSH1 = 6
	r, _ = runCode(t, Cancun, unhex("6001602052"), 1000)
	if 1000-r.GasLeft != 6+3+6 {
		t.Fatalf("mstore gas %d", 1000-r.GasLeft)
	}
	// SDIV / SMOD / SAR / SIGNEXTEND on negative values
	// -8 / 3 = -2 ; -8 % 3 = -2
	neg8 := new(big.Int).Sub(two256, big.NewInt(8))
	code := append([]byte{0x60, 3, 0x7f}, word32(neg8)...)
	code = append(code, 0x05, 0x5f, 0x52, 0x60, 0x20, 0x5f, 0xf3)
	r, _ = runCode(t, Cancun, code, 1000)
	if signed(new(big.Int).SetBytes(r.Output)).Int64() != -2 {
		t.Fatalf("sdiv: %x", r.Output)
	}
	code[35] = 0x07
	r, _ = runCode(t, Cancun, code, 1000)
	if signed(new(big.Int).SetBytes(r.Output)).Int64() != -2 {
		t.Fatalf("smod: %x", r.Output)
	}
}

func TestModexpGas(t *testing.T) {
	// EIP-2565 example: base/mod length 32... use the classic 3^(2^256-2^32-978) mod (2^256-2^32-977)
	in := unhex("0000000000000000000000000000000000000000000000000000000000000001" +
		"0000000000000000000000000000000000000000000000000000000000000020" +
		"0000000000000000000000000000000000000000000000000000000000000020" +
		"03" +
		"fffffffffffffffffffffffffffffffffffffffffffffffffffffffefffffc2e" +
		"fffffffffffffffffffffffffffffffffffffffffffffffffffffffefffffc2f")
	if g := PrecompileGas(Cancun, addrN(5), in); g.Uint64() != 1360 {
		t.Fatalf("modexp gas (EIP-2565 vector nagydani-1-square style): %v", g)
	}
	out, ok := RunPrecompile(Cancun, addrN(5), in)
	if !ok || new(big.Int).SetBytes(out).Int64() != 1 {
		t.Fatalf("modexp fermat: %x", out)
	}
	// EIP-7883: minimum 500, complexity 16 for <=32 bytes, 16 per exponent byte beyond 32
	if g := PrecompileGas(Osaka, addrN(5), in); g.Uint64() != 16*255 {
		t.Fatalf("modexp gas osaka: %v", g)
	}
}
