package refevm

import (
	"crypto/sha256"
	"encoding/binary"
	"math/big"

	"github.com/decred/dcrd/dcrec/secp256k1/v4"
	dcrecdsa "github.com/decred/dcrd/dcrec/secp256k1/v4/ecdsa"
	"github.com/ethereum/go-ethereum/common"
	gethvm "github.com/ethereum/go-ethereum/core/vm"
	"golang.org/x/crypto/ripemd160"
)

func addrN(n int) Address {
	var a Address
	a[18], a[19] = byte(n>>8), byte(n)
	return a
}

// PrecompileAddresses lists the precompiles of a fork.
func PrecompileAddresses(f Fork) []Address {
	var out []Address
	for i := 1; i <= 0x0a; i++ {
		out = append(out, addrN(i))
	}
	if f >= Prague {
		for i := 0x0b; i <= 0x11; i++ {
			out = append(out, addrN(i))
		}
	}
	if f >= Osaka {
		out = append(out, addrN(0x100))
	}
	return out
}

func isPrecompile(f Fork, a Address) bool {
	for i := 0; i < 18; i++ {
		if a[i] != 0 {
			return false
		}
	}
	n := int(a[18])<<8 | int(a[19])
	switch {
	case n >= 1 && n <= 0x0a:
		return true
	case n >= 0x0b && n <= 0x11:
		return f >= Prague
	case n == 0x100:
		return f >= Osaka
	}
	return false
}

// dataSlice returns data[start:start+size] right-padded with zeros; start may exceed 2^64.
func dataSlice(data []byte, start *big.Int, size uint64) []byte {
	out := make([]byte, size)
	if start.IsUint64() && start.Uint64() < uint64(len(data)) {
		copy(out, data[start.Uint64():])
	}
	return out
}

func words(n int) uint64 { return (uint64(n) + 31) / 32 }

var secp256k1N, _ = new(big.Int).SetString("fffffffffffffffffffffffffffffffebaaedce6af48a03bbfd25e8cd0364141", 16)

// Ecrecover returns the address recovered from (hash, recid in {0,1}, r, s), or ok=false.
// No low-s rule is applied here (callers add it where the EIP asks for it).
func Ecrecover(hash []byte, recid byte, r, s *big.Int) (Address, bool) {
	if recid > 1 || r.Sign() <= 0 || s.Sign() <= 0 || r.Cmp(secp256k1N) >= 0 || s.Cmp(secp256k1N) >= 0 {
		return Address{}, false
	}
	sig := make([]byte, 65)
	sig[0] = 27 + recid
	r.FillBytes(sig[1:33])
	s.FillBytes(sig[33:65])
	pub, _, err := dcrecdsa.RecoverCompact(sig, hash)
	if err != nil {
		return Address{}, false
	}
	return BytesToAddress(Keccak256(pub.SerializeUncompressed()[1:])[12:]), true
}

// AddressOfKey derives the account address of a secp256k1 private key.
func AddressOfKey(key []byte) Address {
	pub := secp256k1.PrivKeyFromBytes(key).PubKey()
	return BytesToAddress(Keccak256(pub.SerializeUncompressed()[1:])[12:])
}

// SignRecoverable signs hash and returns (recid, r, s) with canonical low s.
func SignRecoverable(key, hash []byte) (byte, *big.Int, *big.Int) {
	sig := dcrecdsa.SignCompact(secp256k1.PrivKeyFromBytes(key), hash, false)
	return sig[0] - 27, new(big.Int).SetBytes(sig[1:33]), new(big.Int).SetBytes(sig[33:65])
}

// BLS12-381 MSM discount tables (EIP-2537).
var blsG1Discount = [128]uint64{1000, 949, 848, 797, 764, 750, 738, 728, 719, 712, 705, 698, 692, 687, 682, 677, 673, 669, 665, 661, 658, 654, 651, 648, 645, 642, 640, 637, 635, 632, 630, 627, 625, 623, 621, 619, 617, 615, 613, 611, 609, 608, 606, 604, 603, 601, 599, 598, 596, 595, 593, 592, 591, 589, 588, 586, 585, 584, 582, 581, 580, 579, 577, 576, 575, 574, 573, 572, 570, 569, 568, 567, 566, 565, 564, 563, 562, 561, 560, 559, 558, 557, 556, 555, 554, 553, 552, 551, 550, 549, 548, 547, 547, 546, 545, 544, 543, 542, 541, 540, 540, 539, 538, 537, 536, 536, 535, 534, 533, 532, 532, 531, 530, 529, 528, 528, 527, 526, 525, 525, 524, 523, 522, 522, 521, 520, 520, 519}
var blsG2Discount = [128]uint64{1000, 1000, 923, 884, 855, 832, 812, 796, 782, 770, 759, 749, 740, 732, 724, 717, 711, 704, 699, 693, 688, 683, 679, 674, 670, 666, 663, 659, 655, 652, 649, 646, 643, 640, 637, 634, 632, 629, 627, 624, 622, 620, 618, 615, 613, 611, 609, 607, 606, 604, 602, 600, 598, 597, 595, 593, 592, 590, 589, 587, 586, 584, 583, 582, 580, 579, 578, 576, 575, 574, 573, 571, 570, 569, 568, 567, 566, 565, 563, 562, 561, 560, 559, 558, 557, 556, 555, 554, 553, 552, 552, 551, 550, 549, 548, 547, 546, 545, 545, 544, 543, 542, 541, 541, 540, 539, 538, 537, 537, 536, 535, 535, 534, 533, 532, 532, 531, 530, 530, 529, 528, 528, 527, 526, 526, 525, 524, 524}

func msmGas(k uint64, mul uint64, table *[128]uint64) uint64 {
	if k == 0 {
		return 0
	}
	d := table[127]
	if k <= 128 {
		d = table[k-1]
	}
	return k * mul * d / 1000
}

// modexpGas implements EIP-2565 (Cancun, Prague) and EIP-7883 (Osaka).
func modexpGas(f Fork, input []byte) (gas *big.Int, baseLen, expLen, modLen *big.Int) {
	baseLen = new(big.Int).SetBytes(dataSlice(input, bigZero, 32))
	expLen = new(big.Int).SetBytes(dataSlice(input, big32, 32))
	modLen = new(big.Int).SetBytes(dataSlice(input, big.NewInt(64), 32))
	// first (up to) 32 bytes of the exponent
	var head *big.Int
	{
		n := uint64(32)
		if expLen.Cmp(big32) < 0 {
			n = expLen.Uint64()
		}
		start := new(big.Int).Add(big.NewInt(96), baseLen)
		head = new(big.Int).SetBytes(dataSlice(input, start, n))
	}
	maxLen := baseLen
	if modLen.Cmp(maxLen) > 0 {
		maxLen = modLen
	}
	w := new(big.Int).Add(maxLen, big.NewInt(7))
	w.Div(w, big.NewInt(8))
	complexity := new(big.Int).Mul(w, w)
	perByte := int64(8)
	if f >= Osaka {
		perByte = 16
		if maxLen.Cmp(big32) <= 0 {
			complexity = big.NewInt(16)
		} else {
			complexity.Mul(complexity, big.NewInt(2))
		}
	}
	iter := new(big.Int)
	if expLen.Cmp(big32) <= 0 {
		if head.Sign() != 0 {
			iter.SetInt64(int64(head.BitLen() - 1))
		}
	} else {
		iter.Sub(expLen, big32)
		iter.Mul(iter, big.NewInt(perByte))
		if head.Sign() != 0 {
			iter.Add(iter, big.NewInt(int64(head.BitLen()-1)))
		}
	}
	if iter.Sign() == 0 {
		iter.SetInt64(1)
	}
	gas = new(big.Int).Mul(complexity, iter)
	min := int64(200)
	if f >= Osaka {
		min = 500
	} else {
		gas.Div(gas, big.NewInt(3))
	}
	if gas.Cmp(big.NewInt(min)) < 0 {
		gas.SetInt64(min)
	}
	return
}

func gethPrecompile(f Fork, a Address) gethvm.PrecompiledContract {
	ga := common.Address(a)
	switch f {
	case Cancun:
		return gethvm.PrecompiledContractsCancun[ga]
	case Prague:
		return gethvm.PrecompiledContractsPrague[ga]
	}
	return gethvm.PrecompiledContractsOsaka[ga]
}

// PrecompileGas returns the gas of a precompile call (nil = not a precompile).
func PrecompileGas(f Fork, a Address, in []byte) *big.Int {
	n := int(a[18])<<8 | int(a[19])
	switch n {
	case 1:
		return big.NewInt(3000)
	case 2:
		return bi(60 + 12*words(len(in)))
	case 3:
		return bi(600 + 120*words(len(in)))
	case 4:
		return bi(15 + 3*words(len(in)))
	case 5:
		g, _, _, _ := modexpGas(f, in)
		return g
	case 6:
		return big.NewInt(150)
	case 7:
		return big.NewInt(6000)
	case 8:
		return bi(45000 + 34000*uint64(len(in)/192))
	case 9:
		if len(in) != 213 {
			return new(big.Int) // fails on the length anyway
		}
		return bi(uint64(binary.BigEndian.Uint32(in[:4])))
	case 0x0a:
		return big.NewInt(50000)
	case 0x0b:
		return big.NewInt(375)
	case 0x0c:
		return bi(msmGas(uint64(len(in)/160), 12000, &blsG1Discount))
	case 0x0d:
		return big.NewInt(600)
	case 0x0e:
		return bi(msmGas(uint64(len(in)/288), 22500, &blsG2Discount))
	case 0x0f:
		return bi(37700 + 32600*uint64(len(in)/384))
	case 0x10:
		return big.NewInt(5500)
	case 0x11:
		return big.NewInt(23800)
	case 0x100:
		return big.NewInt(6900)
	}
	return nil
}

// RunPrecompile returns the output of a precompile or ok=false on failure (gas not considered).
func RunPrecompile(f Fork, a Address, in []byte) (out []byte, ok bool) {
	n := int(a[18])<<8 | int(a[19])
	switch n {
	case 1:
		d := dataSlice(in, bigZero, 128)
		v := new(big.Int).SetBytes(d[32:64])
		if v.Cmp(big.NewInt(27)) != 0 && v.Cmp(big.NewInt(28)) != 0 {
			return nil, true
		}
		addr, good := Ecrecover(d[:32], byte(v.Uint64()-27), new(big.Int).SetBytes(d[64:96]), new(big.Int).SetBytes(d[96:128]))
		if !good {
			return nil, true
		}
		return append(make([]byte, 12), addr[:]...), true
	case 2:
		h := sha256.Sum256(in)
		return h[:], true
	case 3:
		h := ripemd160.New()
		h.Write(in)
		return append(make([]byte, 12), h.Sum(nil)...), true
	case 4:
		return append([]byte{}, in...), true
	case 5:
		_, bl, el, ml := modexpGas(f, in)
		if f >= Osaka { // EIP-7823
			lim := big.NewInt(1024)
			if bl.Cmp(lim) > 0 || el.Cmp(lim) > 0 || ml.Cmp(lim) > 0 {
				return nil, false
			}
		}
		if bl.Sign() == 0 && ml.Sign() == 0 {
			return []byte{}, true
		}
		// gas has been paid, hence the lengths are small enough to materialise
		if !bl.IsUint64() || !el.IsUint64() || !ml.IsUint64() {
			return nil, false
		}
		pos := big.NewInt(96)
		base := new(big.Int).SetBytes(dataSlice(in, pos, bl.Uint64()))
		pos.Add(pos, bl)
		exp := new(big.Int).SetBytes(dataSlice(in, pos, el.Uint64()))
		pos.Add(pos, el)
		mod := new(big.Int).SetBytes(dataSlice(in, pos, ml.Uint64()))
		out := make([]byte, ml.Uint64())
		if mod.Sign() != 0 {
			new(big.Int).Exp(base, exp, mod).FillBytes(out)
		}
		return out, true
	case 9:
		if len(in) != 213 || in[212] > 1 {
			return nil, false
		}
		var h [8]uint64
		var m [16]uint64
		for i := range h {
			h[i] = binary.LittleEndian.Uint64(in[4+8*i:])
		}
		for i := range m {
			m[i] = binary.LittleEndian.Uint64(in[68+8*i:])
		}
		t0, t1 := binary.LittleEndian.Uint64(in[196:]), binary.LittleEndian.Uint64(in[204:])
		Blake2F(binary.BigEndian.Uint32(in[:4]), &h, &m, t0, t1, in[212] == 1)
		out := make([]byte, 64)
		for i := range h {
			binary.LittleEndian.PutUint64(out[8*i:], h[i])
		}
		return out, true
	case 6, 7, 8, 0x0a, 0x0b, 0x0c, 0x0d, 0x0e, 0x0f, 0x10, 0x11, 0x100:
		// trusted component: output of go-ethereum's implementation of the primitive
		p := gethPrecompile(f, a)
		if p == nil {
			return nil, false
		}
		o, err := p.Run(append([]byte{}, in...))
		if err != nil {
			return nil, false
		}
		return o, true
	}
	return nil, false
}

func (e *EVM) runPrecompile(m *Message) Result {
	if e.Cov != nil {
		e.Cov.Precompiles[m.CodeAddr]++
	}
	gas := PrecompileGas(e.B.Fork, m.CodeAddr, m.Data)
	if !gas.IsUint64() || gas.Uint64() > m.Gas {
		e.cov("precompile " + HaltOOG)
		return Result{Err: HaltOOG}
	}
	out, ok := RunPrecompile(e.B.Fork, m.CodeAddr, m.Data)
	if !ok {
		e.cov(HaltPrecompile)
		return Result{Err: HaltPrecompile}
	}
	return Result{OK: true, GasLeft: m.Gas - gas.Uint64(), Output: out}
}

// ---- BLAKE2b compression function F (RFC 7693, EIP-152) ----

var blake2IV = [8]uint64{0x6a09e667f3bcc908, 0xbb67ae8584caa73b, 0x3c6ef372fe94f82b, 0xa54ff53a5f1d36f1,
	0x510e527fade682d1, 0x9b05688c2b3e6c1f, 0x1f83d9abfb41bd6b, 0x5be0cd19137e2179}

var blake2Sigma = [10][16]byte{
	{0, 1, 2, 3, 4, 5, 6, 7, 8, 9, 10, 11, 12, 13, 14, 15},
	{14, 10, 4, 8, 9, 15, 13, 6, 1, 12, 0, 2, 11, 7, 5, 3},
	{11, 8, 12, 0, 5, 2, 15, 13, 10, 14, 3, 6, 7, 1, 9, 4},
	{7, 9, 3, 1, 13, 12, 11, 14, 2, 6, 5, 10, 4, 0, 15, 8},
	{9, 0, 5, 7, 2, 4, 10, 15, 14, 1, 11, 12, 6, 8, 3, 13},
	{2, 12, 6, 10, 0, 11, 8, 3, 4, 13, 7, 5, 15, 14, 1, 9},
	{12, 5, 1, 15, 14, 13, 4, 10, 0, 7, 6, 3, 9, 2, 8, 11},
	{13, 11, 7, 14, 12, 1, 3, 9, 5, 0, 15, 4, 8, 6, 2, 10},
	{6, 15, 14, 9, 11, 3, 0, 8, 12, 2, 13, 7, 1, 4, 10, 5},
	{10, 2, 8, 4, 7, 6, 1, 5, 15, 11, 9, 14, 3, 12, 13, 0},
}

func rotr64(x uint64, n uint) uint64 { return x>>n | x<<(64-n) }

// Blake2F applies `rounds` rounds of the BLAKE2b compression function to h in place.
func Blake2F(rounds uint32, h *[8]uint64, m *[16]uint64, t0, t1 uint64, final bool) {
	var v [16]uint64
	copy(v[:8], h[:])
	copy(v[8:], blake2IV[:])
	v[12] ^= t0
	v[13] ^= t1
	if final {
		v[14] = ^v[14]
	}
	g := func(a, b, c, d int, x, y uint64) {
		v[a] = v[a] + v[b] + x
		v[d] = rotr64(v[d]^v[a], 32)
		v[c] = v[c] + v[d]
		v[b] = rotr64(v[b]^v[c], 24)
		v[a] = v[a] + v[b] + y
		v[d] = rotr64(v[d]^v[a], 16)
		v[c] = v[c] + v[d]
		v[b] = rotr64(v[b]^v[c], 63)
	}
	for r := uint32(0); r < rounds; r++ {
		s := &blake2Sigma[r%10]
		g(0, 4, 8, 12, m[s[0]], m[s[1]])
		g(1, 5, 9, 13, m[s[2]], m[s[3]])
		g(2, 6, 10, 14, m[s[4]], m[s[5]])
		g(3, 7, 11, 15, m[s[6]], m[s[7]])
		g(0, 5, 10, 15, m[s[8]], m[s[9]])
		g(1, 6, 11, 12, m[s[10]], m[s[11]])
		g(2, 7, 8, 13, m[s[12]], m[s[13]])
		g(3, 4, 9, 14, m[s[14]], m[s[15]])
	}
	for i := 0; i < 8; i++ {
		h[i] ^= v[i] ^ v[i+8]
	}
}
