package refevm

import (
	"math/big"

	"verif/lib/refrlp"
)

func rlpBytes(b []byte) []byte       { return refrlp.EncodeString(b) }
func rlpUint(x uint64) []byte        { return refrlp.EncodeUint(x) }
func rlpBig(x *big.Int) []byte       { return refrlp.EncodeString(x.Bytes()) }
func rlpList(items ...[]byte) []byte { return refrlp.EncodeListRaw(items...) }

// AccessTuple is one EIP-2930 access list entry.
type AccessTuple struct {
	Address Address
	Keys    []Hash
}

// Auth is one EIP-7702 authorisation tuple.
type Auth struct {
	ChainID *big.Int
	Address Address
	Nonce   uint64
	YParity uint64 // values above 1 make the signature invalid
	R, S    *big.Int
}

// SigHash is keccak(0x05 || rlp([chain_id, address, nonce])).
func (a *Auth) SigHash() []byte {
	return Keccak256([]byte{0x05}, rlpList(rlpBig(a.ChainID), rlpBytes(a.Address[:]), rlpUint(a.Nonce)))
}

// Tx is a transaction as seen by the state transition. From is the recovered sender
// (signature handling is outside this function: the harness derives it from the key).
type Tx struct {
	Type             int // 0 legacy, 1 access list, 2 dynamic fee, 3 blob, 4 set code
	From             Address
	Nonce            uint64
	GasPrice         *big.Int // types 0,1
	MaxFee, MaxTip   *big.Int // types 2,3,4
	Gas              uint64
	To               *Address
	Value            *big.Int
	Data             []byte
	AccessList       []AccessTuple
	MaxFeePerBlobGas *big.Int
	BlobHashes       []Hash
	AuthList         []Auth
}

// BlobParams are the blob schedule values of a fork.
type BlobParams struct {
	Target, Max    uint64
	UpdateFraction uint64
}

// Blob returns the blob schedule of the fork (Osaka keeps the Prague schedule).
func (f Fork) Blob() BlobParams {
	if f == Cancun {
		return BlobParams{3, 6, 3338477}
	}
	return BlobParams{6, 9, 5007716}
}

const (
	gasPerBlob    = 131072
	maxTxGasOsaka = 1 << 24 // EIP-7825
	maxBlobsPerTx = 6       // EIP-7594 (Osaka)
)

// IntrinsicGas returns the intrinsic gas and the EIP-7623 floor (floor is 0 before Prague).
func IntrinsicGas(f Fork, tx *Tx) (intrinsic, floor *big.Int) {
	var zero, nonzero int64
	for _, b := range tx.Data {
		if b == 0 {
			zero++
		} else {
			nonzero++
		}
	}
	g := big.NewInt(21000 + 4*zero + 16*nonzero)
	if tx.To == nil {
		g.Add(g, big.NewInt(32000+2*int64(words(len(tx.Data))))) // EIP-2, EIP-3860
	}
	for _, t := range tx.AccessList {
		g.Add(g, big.NewInt(2400+1900*int64(len(t.Keys))))
	}
	g.Add(g, big.NewInt(25000*int64(len(tx.AuthList))))
	floor = new(big.Int)
	if f >= Prague {
		floor = big.NewInt(21000 + 10*(zero+4*nonzero))
	}
	return g, floor
}

// FakeExponential approximates factor * e^(num/den) (EIP-4844).
func FakeExponential(factor, num, den *big.Int) *big.Int {
	i := big.NewInt(1)
	out := new(big.Int)
	acc := new(big.Int).Mul(factor, den)
	for acc.Sign() > 0 {
		out.Add(out, acc)
		acc.Mul(acc, num)
		acc.Div(acc, new(big.Int).Mul(den, i))
		i.Add(i, bigOne)
	}
	return out.Div(out, den)
}

// BlobBaseFee is the blob gas price for an excess blob gas value.
func BlobBaseFee(f Fork, excess uint64) *big.Int {
	return FakeExponential(bigOne, bi(excess), bi(f.Blob().UpdateFraction))
}

// TxResult is the outcome of ApplyTx.
type TxResult struct {
	Rejected bool   // invalid: no state change, not included
	Reason   string // why rejected, or the halting reason of a failed execution
	Status   uint64 // 1 success, 0 failure
	GasUsed  uint64 // after refunds and the EIP-7623 floor
	BlobGas  uint64
	Logs     []Log
	Created  *Address // address of the contract for creation transactions (even if failed)
	Output   []byte
	// GasLeftExec is the gas left after execution before refunds (for supporting harnesses).
	GasLeftExec uint64
	Refund      uint64 // refund counter actually applied
}

// Block-scoped counters the transaction validity depends on.
type BlockCtx struct {
	GasLeft     uint64 // gas pool
	BlobGasUsed uint64
}

// ApplyTx validates and executes tx on state under env. state is modified in place only if
// the transaction is included.
func ApplyTx(state State, env *BlockEnv, bc *BlockCtx, tx *Tx, tracer func(*Step), cov *Coverage) (*TxResult, *EVM) {
	f := env.Fork
	rej := func(s string) (*TxResult, *EVM) { return &TxResult{Rejected: true, Reason: s}, nil }

	// ---- validity ----
	switch tx.Type {
	case 0, 1, 2, 3:
	case 4:
		if f < Prague {
			return rej("transaction type not supported")
		}
	default:
		return rej("transaction type not supported")
	}
	intrinsic, floor := IntrinsicGas(f, tx)
	need := intrinsic
	if floor.Cmp(need) > 0 {
		need = floor
	}
	if bi(tx.Gas).Cmp(need) < 0 {
		return rej("intrinsic gas too low")
	}
	if tx.Nonce == ^uint64(0) {
		return rej("nonce has max value")
	}
	if tx.To == nil && len(tx.Data) > 49152 {
		return rej("max initcode size exceeded")
	}
	if f >= Osaka && tx.Gas > maxTxGasOsaka {
		return rej("transaction gas limit too high")
	}
	if tx.Gas > bc.GasLeft {
		return rej("gas limit reached")
	}
	var feeCap, tip *big.Int
	if tx.Type >= 2 {
		feeCap, tip = tx.MaxFee, tx.MaxTip
		if feeCap.Cmp(tip) < 0 {
			return rej("max priority fee per gas higher than max fee per gas")
		}
	} else {
		feeCap, tip = tx.GasPrice, tx.GasPrice
	}
	if feeCap.Cmp(env.BaseFee) < 0 {
		return rej("max fee per gas less than block base fee")
	}
	var blobGas uint64
	if tx.Type == 3 {
		if env.BlobBaseFee == nil {
			return rej("blob tx without blob environment")
		}
		if tx.To == nil {
			return rej("blob transaction of type create")
		}
		if len(tx.BlobHashes) == 0 {
			return rej("blob transaction missing blob hashes")
		}
		for _, h := range tx.BlobHashes {
			if h[0] != 0x01 {
				return rej("blob hash with invalid version")
			}
		}
		if f >= Osaka && len(tx.BlobHashes) > maxBlobsPerTx {
			return rej("too many blobs in transaction")
		}
		blobGas = gasPerBlob * uint64(len(tx.BlobHashes))
		if bc.BlobGasUsed+blobGas > f.Blob().Max*gasPerBlob {
			return rej("blob gas limit reached")
		}
		if tx.MaxFeePerBlobGas.Cmp(env.BlobBaseFee) < 0 {
			return rej("max fee per blob gas less than block blob gas fee")
		}
	}
	if tx.Type == 4 {
		if tx.To == nil {
			return rej("set code transaction of type create")
		}
		if len(tx.AuthList) == 0 {
			return rej("set code transaction with empty auth list")
		}
	}
	sender := state[tx.From]
	var sNonce uint64
	sBal := bigZero
	var sCode []byte
	if sender != nil {
		sNonce, sBal, sCode = sender.Nonce, sender.Balance, sender.Code
	}
	if sNonce != tx.Nonce {
		return rej("nonce mismatch")
	}
	if len(sCode) != 0 { // EIP-3607, relaxed by EIP-7702 for delegated accounts
		_, deleg := ParseDelegation(sCode)
		if !(f >= Prague && deleg) {
			return rej("sender not an EOA")
		}
	}
	maxCost := new(big.Int).Mul(bi(tx.Gas), feeCap)
	if tx.Type == 3 {
		maxCost.Add(maxCost, new(big.Int).Mul(bi(blobGas), tx.MaxFeePerBlobGas))
	}
	maxCost.Add(maxCost, tx.Value)
	if sBal.Cmp(maxCost) < 0 {
		return rej("insufficient funds for gas * price + value")
	}

	// ---- execution ----
	// effective gas price
	price := new(big.Int).Sub(feeCap, env.BaseFee)
	if tip.Cmp(price) < 0 {
		price.Set(tip)
	}
	priority := new(big.Int).Set(price)
	price.Add(price, env.BaseFee)

	w := newWorld(state)
	e := &EVM{B: env, T: TxEnv{Origin: tx.From, GasPrice: price, BlobHashes: tx.BlobHashes}, w: w, Tracer: tracer, Cov: cov}
	upfront := new(big.Int).Mul(bi(tx.Gas), price)
	if tx.Type == 3 {
		upfront.Add(upfront, new(big.Int).Mul(bi(blobGas), env.BlobBaseFee))
	}
	sacc := w.accts.GetOrNew(tx.From)
	sacc.Balance = new(big.Int).Sub(sacc.Balance, upfront)
	sacc.Nonce++
	e.orig = w.accts.Copy()

	// warm set (EIP-2929, EIP-2930, EIP-3651)
	w.warmAddr[tx.From] = true
	w.warmAddr[env.Coinbase] = true
	for _, p := range PrecompileAddresses(f) {
		w.warmAddr[p] = true
	}
	for _, t := range tx.AccessList {
		w.warmAddr[t.Address] = true
		for _, k := range t.Keys {
			w.warmSlot[slotKey{t.Address, k}] = true
		}
	}
	gas := tx.Gas - intrinsic.Uint64()

	// EIP-7702 authorisations
	if tx.Type == 4 {
		for i := range tx.AuthList {
			e.applyAuth(&tx.AuthList[i])
		}
	}

	res := &TxResult{BlobGas: blobGas}
	var r Result
	if tx.To == nil {
		addr := CreateAddress(tx.From, tx.Nonce)
		res.Created = &addr
		w.warmAddr[addr] = true
		if e.collides(addr) {
			r = Result{Err: HaltCollision}
		} else {
			r = e.createMessage(&Message{Caller: tx.From, Self: addr, CodeAddr: addr, Value: tx.Value, Transfer: true,
				Gas: gas, Create: true, Code: tx.Data})
		}
	} else {
		to := *tx.To
		w.warmAddr[to] = true
		m := &Message{Caller: tx.From, Self: to, CodeAddr: to, Value: tx.Value, Transfer: true, Data: tx.Data, Gas: gas, Code: w.code(to)}
		if f >= Prague {
			if d, ok := ParseDelegation(m.Code); ok {
				w.warmAddr[d] = true
				m.Code, m.CodeAddr, m.NoPrecompile = w.code(d), d, true
			}
		}
		r = e.callMessage(m)
	}
	res.Output = r.Output
	res.GasLeftExec = r.GasLeft
	res.Reason = r.Err
	if r.OK {
		res.Status = 1
		res.Logs = w.logs
	}
	// ---- settlement ----
	used := tx.Gas - r.GasLeft
	var refund uint64
	if r.OK && w.refund > 0 {
		refund = uint64(w.refund)
	} else if !r.OK {
		// a failed top-level frame was rolled back, which restored the refund counter to the
		// value it had before the frame: the authorisation refunds survive
		if w.refund > 0 {
			refund = uint64(w.refund)
		}
	}
	if refund > used/5 {
		refund = used / 5
	}
	res.Refund = refund
	used -= refund
	if f >= Prague && floor.IsUint64() && used < floor.Uint64() {
		used = floor.Uint64()
	}
	res.GasUsed = used
	w.addBalanceNoTouch(tx.From, new(big.Int).Mul(bi(tx.Gas-used), price))
	w.addBalance(env.Coinbase, new(big.Int).Mul(bi(used), priority))
	w.endTx()
	w.commitTo(state)
	bc.GasLeft -= used
	bc.BlobGasUsed += blobGas
	return res, e
}

func (w *world) addBalanceNoTouch(a Address, v *big.Int) {
	if v.Sign() == 0 {
		return
	}
	acc := w.accts.GetOrNew(a)
	acc.Balance = new(big.Int).Add(acc.Balance, v)
}

var secp256k1HalfN = new(big.Int).Rsh(secp256k1N, 1)

// applyAuth processes one authorisation tuple (EIP-7702); an invalid tuple is skipped.
func (e *EVM) applyAuth(a *Auth) {
	w := e.w
	if a.ChainID.Sign() != 0 && a.ChainID.Cmp(e.B.ChainID) != 0 {
		return
	}
	if a.Nonce == ^uint64(0) {
		return
	}
	if a.YParity > 1 || a.S.Cmp(secp256k1HalfN) > 0 {
		return
	}
	authority, ok := Ecrecover(a.SigHash(), byte(a.YParity), a.R, a.S)
	if !ok {
		return
	}
	w.warmAddr[authority] = true
	if code := w.code(authority); len(code) != 0 {
		if _, d := ParseDelegation(code); !d {
			return
		}
	}
	if w.nonce(authority) != a.Nonce {
		return
	}
	if w.exists(authority) {
		w.refund += 25000 - 12500
	}
	acc := w.accts.GetOrNew(authority)
	if a.Address == (Address{}) {
		acc.Code = nil
	} else {
		acc.Code = append([]byte{0xef, 0x01, 0x00}, a.Address[:]...)
	}
	acc.Nonce++
}
