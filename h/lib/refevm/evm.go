package refevm

import (
	"math/big"
)

// BlockEnv is the block context seen by the EVM.
type BlockEnv struct {
	Fork        Fork
	ChainID     *big.Int
	Coinbase    Address
	Number      uint64
	Timestamp   uint64
	GasLimit    uint64
	BaseFee     *big.Int
	Random      Hash
	BlobBaseFee *big.Int // nil when the environment carries no blob information
	// BlockHash returns the hash of an ancestor; ok=false means the tool input did not
	// provide it (transition-tool convention: the run is a tool error).
	BlockHash func(n uint64) (h Hash, ok bool)
	Quirks    Quirks
}

// Quirks switch single rules of the model to the behaviour observed in go-ethereum where it
// knowingly departs from the EIP text. They are all false in the oracle; a harness flips
// exactly one of them to decide whether an observed disagreement is fully explained by that
// known divergence.
type Quirks struct {
	// NoStorageCollision: contract creation does not collide with an account that has
	// storage but neither nonce nor code (EIP-7610 not applied).
	NoStorageCollision bool
	// NoDepositLayoutCheck: a 576-byte deposit event is accepted without validating its
	// ABI offset/size words (EIP-6110 is_valid_deposit_event_data not applied).
	NoDepositLayoutCheck bool
}

// TxEnv is the transaction context seen by the EVM.
type TxEnv struct {
	Origin     Address
	GasPrice   *big.Int
	BlobHashes []Hash
}

// Step is one trace record, comparable to go-ethereum's JSON logger lines.
type Step struct {
	PC      uint64
	Op      byte
	Gas     uint64 // gas before the operation
	GasCost uint64 // gas charged by the operation (for CALL-family incl. forwarded gas)
	Depth   int    // 1-based like geth's logger
	Stack   []*big.Int
	MemSize int
	Refund  int64  // refund counter before the operation
	Err     string // halting reason if the operation halted exceptionally
}

// Coverage accumulates what was exercised.
type Coverage struct {
	Ops         [256]uint64
	Precompiles map[Address]uint64
	Frames      uint64
	MaxDepth    int
	Halts       map[string]uint64 // halting reason -> count ("stop","return","revert","selfdestruct", exceptional reasons)
}

// NewCoverage returns an empty coverage record.
func NewCoverage() *Coverage {
	return &Coverage{Precompiles: map[Address]uint64{}, Halts: map[string]uint64{}}
}

// EVM executes messages on a world.
type EVM struct {
	B      *BlockEnv
	T      TxEnv
	w      *world
	orig   State // state at transaction start (original storage values for SSTORE)
	Tracer func(*Step)
	Cov    *Coverage
	// MissingBlockhash is set when BLOCKHASH asked for an ancestor the input did not give.
	MissingBlockhash bool
}

// halt is the panic payload of an exceptional halt.
type halt struct{ reason string }

const (
	HaltOOG          = "out of gas"
	HaltUnderflow    = "stack underflow"
	HaltOverflow     = "stack overflow"
	HaltInvalidOp    = "invalid opcode"
	HaltBadJump      = "invalid jump destination"
	HaltStatic       = "write in static context"
	HaltRetBounds    = "return data out of bounds"
	HaltCodeSize     = "max code size exceeded"
	HaltCodePrefix   = "invalid code prefix 0xEF"
	HaltCodeStoreOOG = "code deposit out of gas"
	HaltInitcodeSize = "max initcode size exceeded"
	HaltPrecompile   = "precompile failure"
	HaltCollision    = "address collision"
)

// Message is one message call or contract creation.
type Message struct {
	Caller       Address  // msg.sender inside the frame
	Self         Address  // account whose storage/balance context is used (ADDRESS)
	CodeAddr     Address  // account the code is taken from (precompile dispatch key)
	Value        *big.Int // CALLVALUE
	Transfer     bool     // whether Value is moved from Caller to Self
	Data         []byte
	Gas          uint64
	Depth        int // 0 for the transaction-level message
	Static       bool
	Create       bool
	Code         []byte // code to run (init code for creations); resolved by the caller
	NoPrecompile bool   // EIP-7702: code reached through a delegation never runs as a precompile
}

// Result is the outcome of a message.
type Result struct {
	OK      bool   // neither reverted nor halted exceptionally
	Revert  bool   // REVERT: state rolled back, gas left kept, Output is the revert data
	GasLeft uint64 // 0 after an exceptional halt
	Output  []byte
	Err     string // halting reason ("" on success)
}

type frame struct {
	e     *EVM
	m     *Message
	code  []byte
	jd    []bool
	pc    int
	gas   uint64
	stack []*big.Int
	mem   []byte
	ret   []byte // return data buffer of the last sub-call
	step  *Step
}

// ---- gas helpers ----

func (f *frame) use(n uint64) {
	if f.gas < n {
		if f.step != nil {
			f.step.GasCost += n
		}
		panic(halt{HaltOOG})
	}
	f.gas -= n
	if f.step != nil {
		f.step.GasCost += n
	}
}

func (f *frame) useBig(n *big.Int) {
	if !n.IsUint64() {
		if f.step != nil {
			f.step.GasCost = ^uint64(0)
		}
		panic(halt{HaltOOG})
	}
	f.use(n.Uint64())
}

// memCostWords is C_mem(a) = 3a + floor(a^2/512).
func memCostWords(words *big.Int) *big.Int {
	c := new(big.Int).Mul(words, big.NewInt(3))
	sq := new(big.Int).Mul(words, words)
	return c.Add(c, sq.Div(sq, big.NewInt(512)))
}

func ceilWords(n *big.Int) *big.Int {
	w := new(big.Int).Add(n, big.NewInt(31))
	return w.Div(w, big32)
}

// expansion returns the cost of expanding memory to cover all (offset,size) ranges and the
// resulting size in bytes. Ranges with size 0 never expand.
func (f *frame) expansion(ranges ...*big.Int) (cost *big.Int, newSize *big.Int) {
	cur := big.NewInt(int64(len(f.mem)))
	end := new(big.Int).Set(cur)
	for i := 0; i+1 < len(ranges); i += 2 {
		off, size := ranges[i], ranges[i+1]
		if size.Sign() == 0 {
			continue
		}
		e := new(big.Int).Add(off, size)
		if e.Cmp(end) > 0 {
			end = e
		}
	}
	if end.Cmp(cur) <= 0 {
		return new(big.Int), cur
	}
	nw := ceilWords(end)
	cost = new(big.Int).Sub(memCostWords(nw), memCostWords(ceilWords(cur)))
	return cost, nw.Mul(nw, big32)
}

// grow extends memory to newSize bytes (already paid for).
func (f *frame) grow(newSize *big.Int) {
	n := int(newSize.Uint64())
	if n > len(f.mem) {
		f.mem = append(f.mem, make([]byte, n-len(f.mem))...)
	}
}

// chargeMem charges cost + memory expansion for the ranges and grows memory.
func (f *frame) chargeMem(base *big.Int, ranges ...*big.Int) {
	c, ns := f.expansion(ranges...)
	f.useBig(new(big.Int).Add(base, c))
	f.grow(ns)
}

func (f *frame) memRead(off, size *big.Int) []byte {
	if size.Sign() == 0 {
		return nil
	}
	o, n := int(off.Uint64()), int(size.Uint64())
	return append([]byte(nil), f.mem[o:o+n]...)
}

func (f *frame) memWrite(off *big.Int, data []byte) {
	if len(data) == 0 {
		return
	}
	copy(f.mem[int(off.Uint64()):], data)
}

// padSlice returns data[off:off+size] zero-padded on the right; off may be arbitrarily large.
func padSlice(data []byte, off, size *big.Int) []byte {
	n := int(size.Uint64())
	out := make([]byte, n)
	if off.IsUint64() && off.Uint64() < uint64(len(data)) {
		copy(out, data[off.Uint64():])
	}
	return out
}

// ---- stack ----

func (f *frame) pop() *big.Int {
	n := len(f.stack)
	if n == 0 {
		panic(halt{HaltUnderflow})
	}
	v := f.stack[n-1]
	f.stack = f.stack[:n-1]
	return v
}

func (f *frame) push(v *big.Int) {
	if len(f.stack) >= 1024 {
		panic(halt{HaltOverflow})
	}
	f.stack = append(f.stack, v)
}

func (f *frame) pushBool(b bool) {
	if b {
		f.push(big.NewInt(1))
	} else {
		f.push(new(big.Int))
	}
}

func (f *frame) need(pops, pushes int) {
	if len(f.stack) < pops {
		panic(halt{HaltUnderflow})
	}
	if len(f.stack)-pops+pushes > 1024 {
		panic(halt{HaltOverflow})
	}
}

// analyse marks valid JUMPDEST positions (0x5b bytes outside PUSH data).
func analyse(code []byte) []bool {
	jd := make([]bool, len(code))
	for i := 0; i < len(code); i++ {
		op := code[i]
		if op == 0x5b {
			jd[i] = true
		} else if op >= 0x60 && op <= 0x7f {
			i += int(op - 0x5f)
		}
	}
	return jd
}

// ---- access lists (EIP-2929) ----

func (e *EVM) accessAddr(a Address) (cold bool) {
	if e.w.warmAddr[a] {
		return false
	}
	e.w.warmAddr[a] = true
	return true
}

func (e *EVM) accessSlot(a Address, k Hash) (cold bool) {
	sk := slotKey{a, k}
	if e.w.warmSlot[sk] {
		return false
	}
	e.w.warmSlot[sk] = true
	return true
}

func (f *frame) addrAccessCost(a Address) uint64 {
	if f.e.accessAddr(a) {
		return 2600
	}
	return 100
}

// ---- EIP-7702 ----

// ParseDelegation returns the delegate address if code is a delegation designator
// (0xef0100 || address, exactly 23 bytes).
func ParseDelegation(code []byte) (Address, bool) {
	if len(code) != 23 || code[0] != 0xef || code[1] != 0x01 || code[2] != 0x00 {
		return Address{}, false
	}
	return BytesToAddress(code[3:]), true
}

// HaltCollisionStorageOnly is counted (in addition to HaltCollision) when the only reason for
// the collision is non-empty storage (EIP-7610).
const HaltCollisionStorageOnly = "address collision (storage only)"

// collides is the contract-creation collision predicate: non-zero nonce, non-empty code
// (EIP-684) or non-empty storage (EIP-7610).
func (e *EVM) collides(addr Address) bool {
	acc := e.w.accts[addr]
	if acc == nil || (acc.Nonce == 0 && len(acc.Code) == 0 && len(acc.Storage) == 0) {
		return false
	}
	if acc.Nonce == 0 && len(acc.Code) == 0 && e.B.Quirks.NoStorageCollision {
		e.cov(HaltCollisionStorageOnly)
		return false
	}
	e.cov(HaltCollision)
	if acc.Nonce == 0 && len(acc.Code) == 0 {
		e.cov(HaltCollisionStorageOnly)
	}
	return true
}

func (e *EVM) isPrecompile(a Address) bool { return isPrecompile(e.B.Fork, a) }

// ---- message execution ----

func (e *EVM) cov(reason string) {
	if e.Cov != nil {
		e.Cov.Halts[reason]++
	}
}

// Call runs a message call (not a creation): snapshot, value transfer, code or precompile,
// rollback on failure. The depth and balance preconditions are checked by the caller.
func (e *EVM) callMessage(m *Message) Result {
	snap := e.w.copy()
	if e.Cov != nil {
		e.Cov.Frames++
		if m.Depth > e.Cov.MaxDepth {
			e.Cov.MaxDepth = m.Depth
		}
	}
	e.w.touch(m.Self)
	if m.Transfer {
		e.w.subBalance(m.Caller, m.Value)
		e.w.addBalance(m.Self, m.Value)
	}
	var res Result
	if !m.NoPrecompile && e.isPrecompile(m.CodeAddr) {
		res = e.runPrecompile(m)
	} else {
		res = e.interpret(m)
	}
	if !res.OK {
		e.w.restore(snap)
	}
	return res
}

// createMessage runs a contract creation at address m.Self with init code m.Code. The
// caller has already checked depth/balance/nonce, incremented the creator's nonce, warmed
// the address and checked for a collision.
func (e *EVM) createMessage(m *Message) Result {
	snap := e.w.copy()
	if e.Cov != nil {
		e.Cov.Frames++
		if m.Depth > e.Cov.MaxDepth {
			e.Cov.MaxDepth = m.Depth
		}
	}
	acc := e.w.accts.GetOrNew(m.Self)
	e.w.created[m.Self] = true
	acc.Nonce = 1 // EIP-161
	e.w.touched[m.Self] = true
	if m.Transfer {
		e.w.subBalance(m.Caller, m.Value)
		e.w.addBalance(m.Self, m.Value)
	}
	res := e.interpret(m)
	if res.OK {
		code := res.Output
		reason := ""
		switch {
		case len(code) > 0 && code[0] == 0xef: // EIP-3541
			reason = HaltCodePrefix
		case uint64(len(code)) > 24576: // EIP-170
			reason = HaltCodeSize
		case res.GasLeft < 200*uint64(len(code)):
			reason = HaltCodeStoreOOG
		}
		if reason != "" {
			e.cov(reason)
			res = Result{Err: reason}
		} else {
			res.GasLeft -= 200 * uint64(len(code))
			e.w.accts.GetOrNew(m.Self).Code = append([]byte(nil), code...)
		}
	}
	if !res.OK {
		e.w.restore(snap)
	}
	return res
}

func (e *EVM) emit(f *frame, err string) {
	if f.step != nil {
		f.step.Err = err
		if e.Tracer != nil {
			e.Tracer(f.step)
		}
		f.step = nil
	}
}

// interpret runs m.Code in a fresh frame.
func (e *EVM) interpret(m *Message) (res Result) {
	if len(m.Code) == 0 {
		return Result{OK: true, GasLeft: m.Gas} // nothing to execute (no frame in traces)
	}
	f := &frame{e: e, m: m, code: m.Code, gas: m.Gas}
	f.jd = analyse(f.code)
	defer func() {
		if r := recover(); r != nil {
			h, ok := r.(halt)
			if !ok {
				panic(r)
			}
			e.emit(f, h.reason)
			e.cov(h.reason)
			res = Result{Err: h.reason}
		}
	}()
	for {
		var op byte // STOP when running off the end of the code
		if f.pc < len(f.code) {
			op = f.code[f.pc]
		}
		if e.Cov != nil {
			e.Cov.Ops[op]++
		}
		if e.Tracer != nil {
			st := make([]*big.Int, len(f.stack))
			copy(st, f.stack)
			f.step = &Step{PC: uint64(f.pc), Op: op, Gas: f.gas, Depth: m.Depth + 1, Stack: st, MemSize: len(f.mem), Refund: e.w.refund}
		}
		done, r := f.exec(op)
		e.emit(f, "")
		if done {
			return r
		}
	}
}

func (f *frame) okResult(out []byte, why string) (bool, Result) {
	f.e.cov(why)
	return true, Result{OK: true, GasLeft: f.gas, Output: out}
}
