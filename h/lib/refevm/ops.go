package refevm

import (
	"math/big"
)

func b2i(b bool) *big.Int {
	if b {
		return big.NewInt(1)
	}
	return new(big.Int)
}

// exec executes one operation. Stack-height validation precedes gas charging; both failures
// are exceptional halts (all gas consumed), so their relative order is unobservable outside
// the trace.
func (f *frame) exec(op byte) (done bool, res Result) {
	e := f.e
	w := e.w
	fork := e.B.Fork
	next := f.pc + 1

	bin := func(cost uint64, fn func(a, b *big.Int) *big.Int) {
		f.need(2, 1)
		f.use(cost)
		a, b := f.pop(), f.pop()
		f.push(wrap(fn(a, b)))
	}
	un := func(cost uint64, fn func(a *big.Int) *big.Int) {
		f.need(1, 1)
		f.use(cost)
		f.push(wrap(fn(f.pop())))
	}
	env := func(cost uint64, v *big.Int) {
		f.need(0, 1)
		f.use(cost)
		f.push(v)
	}

	switch {
	case op == 0x00: // STOP
		return f.okResult(nil, "stop")

	case op == 0x01: // ADD
		bin(3, func(a, b *big.Int) *big.Int { return new(big.Int).Add(a, b) })
	case op == 0x02: // MUL
		bin(5, func(a, b *big.Int) *big.Int { return new(big.Int).Mul(a, b) })
	case op == 0x03: // SUB
		bin(3, func(a, b *big.Int) *big.Int { return new(big.Int).Sub(a, b) })
	case op == 0x04: // DIV
		bin(5, func(a, b *big.Int) *big.Int {
			if b.Sign() == 0 {
				return new(big.Int)
			}
			return new(big.Int).Div(a, b)
		})
	case op == 0x05: // SDIV (truncated towards zero)
		bin(5, func(a, b *big.Int) *big.Int {
			if b.Sign() == 0 {
				return new(big.Int)
			}
			return new(big.Int).Quo(signed(a), signed(b))
		})
	case op == 0x06: // MOD
		bin(5, func(a, b *big.Int) *big.Int {
			if b.Sign() == 0 {
				return new(big.Int)
			}
			return new(big.Int).Mod(a, b)
		})
	case op == 0x07: // SMOD (sign of the dividend)
		bin(5, func(a, b *big.Int) *big.Int {
			if b.Sign() == 0 {
				return new(big.Int)
			}
			return new(big.Int).Rem(signed(a), signed(b))
		})
	case op == 0x08 || op == 0x09: // ADDMOD, MULMOD
		f.need(3, 1)
		f.use(8)
		a, b, n := f.pop(), f.pop(), f.pop()
		if n.Sign() == 0 {
			f.push(new(big.Int))
		} else {
			var r *big.Int
			if op == 0x08 {
				r = new(big.Int).Add(a, b)
			} else {
				r = new(big.Int).Mul(a, b)
			}
			f.push(r.Mod(r, n))
		}
	case op == 0x0a: // EXP
		f.need(2, 1)
		base, exp := f.stack[len(f.stack)-1], f.stack[len(f.stack)-2]
		f.use(10 + 50*uint64((exp.BitLen()+7)/8))
		f.pop()
		f.pop()
		f.push(new(big.Int).Exp(base, exp, two256))
	case op == 0x0b: // SIGNEXTEND
		bin(5, func(k, x *big.Int) *big.Int {
			if k.Cmp(big.NewInt(31)) >= 0 {
				return x
			}
			bit := uint(k.Uint64()*8 + 7)
			mask := new(big.Int).Lsh(bigOne, bit+1)
			mask.Sub(mask, bigOne)
			low := new(big.Int).And(x, mask)
			if x.Bit(int(bit)) == 1 {
				high := new(big.Int).Xor(maxWord, mask)
				return low.Or(low, high)
			}
			return low
		})

	case op == 0x10: // LT
		bin(3, func(a, b *big.Int) *big.Int { return b2i(a.Cmp(b) < 0) })
	case op == 0x11: // GT
		bin(3, func(a, b *big.Int) *big.Int { return b2i(a.Cmp(b) > 0) })
	case op == 0x12: // SLT
		bin(3, func(a, b *big.Int) *big.Int { return b2i(signed(a).Cmp(signed(b)) < 0) })
	case op == 0x13: // SGT
		bin(3, func(a, b *big.Int) *big.Int { return b2i(signed(a).Cmp(signed(b)) > 0) })
	case op == 0x14: // EQ
		bin(3, func(a, b *big.Int) *big.Int { return b2i(a.Cmp(b) == 0) })
	case op == 0x15: // ISZERO
		un(3, func(a *big.Int) *big.Int { return b2i(a.Sign() == 0) })
	case op == 0x16: // AND
		bin(3, func(a, b *big.Int) *big.Int { return new(big.Int).And(a, b) })
	case op == 0x17: // OR
		bin(3, func(a, b *big.Int) *big.Int { return new(big.Int).Or(a, b) })
	case op == 0x18: // XOR
		bin(3, func(a, b *big.Int) *big.Int { return new(big.Int).Xor(a, b) })
	case op == 0x19: // NOT
		un(3, func(a *big.Int) *big.Int { return new(big.Int).Xor(a, maxWord) })
	case op == 0x1a: // BYTE
		bin(3, func(i, x *big.Int) *big.Int {
			if i.Cmp(big32) >= 0 {
				return new(big.Int)
			}
			return big.NewInt(int64(word32(x)[i.Uint64()]))
		})
	case op == 0x1b: // SHL
		bin(3, func(s, x *big.Int) *big.Int {
			if s.Cmp(big.NewInt(256)) >= 0 {
				return new(big.Int)
			}
			return new(big.Int).Lsh(x, uint(s.Uint64()))
		})
	case op == 0x1c: // SHR
		bin(3, func(s, x *big.Int) *big.Int {
			if s.Cmp(big.NewInt(256)) >= 0 {
				return new(big.Int)
			}
			return new(big.Int).Rsh(x, uint(s.Uint64()))
		})
	case op == 0x1d: // SAR
		bin(3, func(s, x *big.Int) *big.Int {
			sx := signed(x)
			if s.Cmp(big.NewInt(256)) >= 0 {
				if sx.Sign() < 0 {
					return new(big.Int).Set(maxWord)
				}
				return new(big.Int)
			}
			return sx.Rsh(sx, uint(s.Uint64())) // arithmetic shift on big.Int rounds towards -inf
		})
	case op == 0x1e && fork >= Osaka: // CLZ (EIP-7939)
		un(5, func(x *big.Int) *big.Int { return big.NewInt(int64(256 - x.BitLen())) })

	case op == 0x20: // KECCAK256
		f.need(2, 1)
		off, size := f.stack[len(f.stack)-1], f.stack[len(f.stack)-2]
		words := ceilWords(size)
		f.chargeMem(new(big.Int).Add(big.NewInt(30), words.Mul(words, big.NewInt(6))), off, size)
		f.pop()
		f.pop()
		f.push(new(big.Int).SetBytes(Keccak256(f.memRead(off, size))))

	case op == 0x30: // ADDRESS
		env(2, f.m.Self.Big())
	case op == 0x31: // BALANCE
		f.need(1, 1)
		a := WordToAddress(f.stack[len(f.stack)-1])
		f.use(f.addrAccessCost(a))
		f.pop()
		f.push(new(big.Int).Set(w.balance(a)))
	case op == 0x32: // ORIGIN
		env(2, e.T.Origin.Big())
	case op == 0x33: // CALLER
		env(2, f.m.Caller.Big())
	case op == 0x34: // CALLVALUE
		env(2, new(big.Int).Set(f.m.Value))
	case op == 0x35: // CALLDATALOAD
		un(3, func(off *big.Int) *big.Int { return new(big.Int).SetBytes(padSlice(f.m.Data, off, big32)) })
	case op == 0x36: // CALLDATASIZE
		env(2, big.NewInt(int64(len(f.m.Data))))
	case op == 0x37: // CALLDATACOPY
		f.copyOp(f.m.Data, 0)
	case op == 0x38: // CODESIZE
		env(2, big.NewInt(int64(len(f.code))))
	case op == 0x39: // CODECOPY
		f.copyOp(f.code, 0)
	case op == 0x3a: // GASPRICE
		env(2, new(big.Int).Set(e.T.GasPrice))
	case op == 0x3b: // EXTCODESIZE (EIP-7702: acts on the designator itself)
		f.need(1, 1)
		a := WordToAddress(f.stack[len(f.stack)-1])
		f.use(f.addrAccessCost(a))
		f.pop()
		f.push(big.NewInt(int64(len(w.code(a)))))
	case op == 0x3c: // EXTCODECOPY
		f.need(4, 0)
		a := WordToAddress(f.stack[len(f.stack)-1])
		f.copyOp(w.code(a), 1)
	case op == 0x3d: // RETURNDATASIZE
		env(2, big.NewInt(int64(len(f.ret))))
	case op == 0x3e: // RETURNDATACOPY
		f.need(3, 0)
		dst, src, size := f.stack[len(f.stack)-1], f.stack[len(f.stack)-2], f.stack[len(f.stack)-3]
		words := ceilWords(size)
		f.chargeMem(new(big.Int).Add(big.NewInt(3), words.Mul(words, big.NewInt(3))), dst, size)
		if new(big.Int).Add(src, size).Cmp(big.NewInt(int64(len(f.ret)))) > 0 {
			panic(halt{HaltRetBounds})
		}
		f.pop()
		f.pop()
		f.pop()
		f.memWrite(dst, padSlice(f.ret, src, size))
	case op == 0x3f: // EXTCODEHASH
		f.need(1, 1)
		a := WordToAddress(f.stack[len(f.stack)-1])
		f.use(f.addrAccessCost(a))
		f.pop()
		if w.dead(a) {
			f.push(new(big.Int))
		} else {
			f.push(new(big.Int).SetBytes(Keccak256(w.code(a))))
		}

	case op == 0x40: // BLOCKHASH
		f.need(1, 1)
		f.use(20)
		n := f.pop()
		cur := e.B.Number
		if !n.IsUint64() || n.Uint64() >= cur || cur-n.Uint64() > 256 {
			f.push(new(big.Int))
		} else {
			h, ok := e.B.BlockHash(n.Uint64())
			if !ok {
				e.MissingBlockhash = true
			}
			f.push(h.Big())
		}
	case op == 0x41: // COINBASE
		env(2, e.B.Coinbase.Big())
	case op == 0x42: // TIMESTAMP
		env(2, bi(e.B.Timestamp))
	case op == 0x43: // NUMBER
		env(2, bi(e.B.Number))
	case op == 0x44: // PREVRANDAO
		env(2, e.B.Random.Big())
	case op == 0x45: // GASLIMIT
		env(2, bi(e.B.GasLimit))
	case op == 0x46: // CHAINID
		env(2, new(big.Int).Set(e.B.ChainID))
	case op == 0x47: // SELFBALANCE
		env(5, new(big.Int).Set(w.balance(f.m.Self)))
	case op == 0x48: // BASEFEE
		env(2, new(big.Int).Set(e.B.BaseFee))
	case op == 0x49: // BLOBHASH
		f.need(1, 1)
		f.use(3)
		i := f.pop()
		if i.IsUint64() && i.Uint64() < uint64(len(e.T.BlobHashes)) {
			f.push(e.T.BlobHashes[i.Uint64()].Big())
		} else {
			f.push(new(big.Int))
		}
	case op == 0x4a: // BLOBBASEFEE
		bf := e.B.BlobBaseFee
		if bf == nil {
			bf = bigZero
		}
		env(2, new(big.Int).Set(bf))

	case op == 0x50: // POP
		f.need(1, 0)
		f.use(2)
		f.pop()
	case op == 0x51: // MLOAD
		f.need(1, 1)
		off := f.stack[len(f.stack)-1]
		f.chargeMem(big.NewInt(3), off, big32)
		f.pop()
		f.push(new(big.Int).SetBytes(f.memRead(off, big32)))
	case op == 0x52: // MSTORE
		f.need(2, 0)
		off := f.stack[len(f.stack)-1]
		f.chargeMem(big.NewInt(3), off, big32)
		f.pop()
		f.memWrite(off, word32(f.pop()))
	case op == 0x53: // MSTORE8
		f.need(2, 0)
		off := f.stack[len(f.stack)-1]
		f.chargeMem(big.NewInt(3), off, bigOne)
		f.pop()
		f.memWrite(off, []byte{word32(f.pop())[31]})
	case op == 0x54: // SLOAD
		f.need(1, 1)
		k := WordToHash(f.stack[len(f.stack)-1])
		if e.accessSlot(f.m.Self, k) {
			f.use(2100)
		} else {
			f.use(100)
		}
		f.pop()
		f.push(w.storage(f.m.Self, k))
	case op == 0x55: // SSTORE (EIP-2200, EIP-2929, EIP-3529)
		f.need(2, 0)
		if f.m.Static {
			panic(halt{HaltStatic})
		}
		if f.gas <= 2300 {
			panic(halt{HaltOOG})
		}
		k := WordToHash(f.stack[len(f.stack)-1])
		nv := f.stack[len(f.stack)-2]
		cur := w.storage(f.m.Self, k)
		orig := bigZero
		if oa := e.orig[f.m.Self]; oa != nil && !w.created[f.m.Self] {
			if v := oa.Storage[k]; v != nil {
				orig = v
			}
		}
		var cost uint64
		if e.accessSlot(f.m.Self, k) {
			cost += 2100
		}
		switch {
		case cur.Cmp(nv) == 0:
			cost += 100
		case orig.Cmp(cur) == 0:
			if orig.Sign() == 0 {
				cost += 20000
			} else {
				cost += 2900
			}
		default:
			cost += 100
		}
		f.use(cost)
		if cur.Cmp(nv) != 0 {
			if orig.Cmp(cur) == 0 {
				if orig.Sign() != 0 && nv.Sign() == 0 {
					w.refund += 4800
				}
			} else {
				if orig.Sign() != 0 {
					if cur.Sign() == 0 {
						w.refund -= 4800
					} else if nv.Sign() == 0 {
						w.refund += 4800
					}
				}
				if orig.Cmp(nv) == 0 {
					if orig.Sign() == 0 {
						w.refund += 20000 - 100
					} else {
						w.refund += 5000 - 2100 - 100
					}
				}
			}
		}
		f.pop()
		f.pop()
		w.setStorage(f.m.Self, k, nv)
	case op == 0x56: // JUMP
		f.need(1, 0)
		f.use(8)
		d := f.pop()
		if !d.IsUint64() || d.Uint64() >= uint64(len(f.code)) || !f.jd[d.Uint64()] {
			panic(halt{HaltBadJump})
		}
		next = int(d.Uint64())
	case op == 0x57: // JUMPI
		f.need(2, 0)
		f.use(10)
		d, c := f.pop(), f.pop()
		if c.Sign() != 0 {
			if !d.IsUint64() || d.Uint64() >= uint64(len(f.code)) || !f.jd[d.Uint64()] {
				panic(halt{HaltBadJump})
			}
			next = int(d.Uint64())
		}
	case op == 0x58: // PC
		env(2, big.NewInt(int64(f.pc)))
	case op == 0x59: // MSIZE
		env(2, big.NewInt(int64(len(f.mem))))
	case op == 0x5a: // GAS
		f.need(0, 1)
		f.use(2)
		f.push(bi(f.gas))
	case op == 0x5b: // JUMPDEST
		f.use(1)
	case op == 0x5c: // TLOAD (EIP-1153)
		f.need(1, 1)
		f.use(100)
		k := WordToHash(f.pop())
		if v := w.transient[slotKey{f.m.Self, k}]; v != nil {
			f.push(v)
		} else {
			f.push(new(big.Int))
		}
	case op == 0x5d: // TSTORE
		f.need(2, 0)
		if f.m.Static {
			panic(halt{HaltStatic})
		}
		f.use(100)
		k := WordToHash(f.pop())
		w.transient[slotKey{f.m.Self, k}] = f.pop()
	case op == 0x5e: // MCOPY (EIP-5656)
		f.need(3, 0)
		dst, src, size := f.stack[len(f.stack)-1], f.stack[len(f.stack)-2], f.stack[len(f.stack)-3]
		words := ceilWords(size)
		f.chargeMem(new(big.Int).Add(big.NewInt(3), words.Mul(words, big.NewInt(3))), dst, size, src, size)
		f.pop()
		f.pop()
		f.pop()
		f.memWrite(dst, f.memRead(src, size))
	case op == 0x5f: // PUSH0
		env(2, new(big.Int))
	case op >= 0x60 && op <= 0x7f: // PUSH1..PUSH32 (missing bytes read as zero)
		n := int(op - 0x5f)
		f.need(0, 1)
		f.use(3)
		buf := make([]byte, n)
		if f.pc+1 < len(f.code) {
			copy(buf, f.code[f.pc+1:])
		}
		f.push(new(big.Int).SetBytes(buf))
		next = f.pc + 1 + n
	case op >= 0x80 && op <= 0x8f: // DUP1..DUP16
		n := int(op - 0x7f)
		f.need(n, n+1)
		f.use(3)
		f.push(f.stack[len(f.stack)-n])
	case op >= 0x90 && op <= 0x9f: // SWAP1..SWAP16
		n := int(op - 0x8f)
		f.need(n+1, n+1)
		f.use(3)
		t := len(f.stack) - 1
		f.stack[t], f.stack[t-n] = f.stack[t-n], f.stack[t]
	case op >= 0xa0 && op <= 0xa4: // LOG0..LOG4
		nt := int(op - 0xa0)
		f.need(2+nt, 0)
		if f.m.Static {
			panic(halt{HaltStatic})
		}
		off, size := f.stack[len(f.stack)-1], f.stack[len(f.stack)-2]
		base := new(big.Int).Mul(size, big.NewInt(8))
		base.Add(base, big.NewInt(int64(375+375*nt)))
		f.chargeMem(base, off, size)
		f.pop()
		f.pop()
		lg := Log{Address: f.m.Self, Data: f.memRead(off, size)}
		if lg.Data == nil {
			lg.Data = []byte{}
		}
		for i := 0; i < nt; i++ {
			lg.Topics = append(lg.Topics, WordToHash(f.pop()))
		}
		w.logs = append(w.logs, lg)

	case op == 0xf0 || op == 0xf5: // CREATE, CREATE2
		f.opCreate(op == 0xf5)
	case op == 0xf1 || op == 0xf2 || op == 0xf4 || op == 0xfa: // CALL, CALLCODE, DELEGATECALL, STATICCALL
		f.opCall(op)
	case op == 0xf3 || op == 0xfd: // RETURN, REVERT
		f.need(2, 0)
		off, size := f.stack[len(f.stack)-1], f.stack[len(f.stack)-2]
		f.chargeMem(new(big.Int), off, size)
		f.pop()
		f.pop()
		out := f.memRead(off, size)
		if op == 0xf3 {
			return f.okResult(out, "return")
		}
		e.cov("revert")
		return true, Result{Revert: true, GasLeft: f.gas, Output: out, Err: "revert"}
	case op == 0xff: // SELFDESTRUCT (EIP-6780)
		f.need(1, 0)
		if f.m.Static {
			panic(halt{HaltStatic})
		}
		ben := WordToAddress(f.stack[len(f.stack)-1])
		cost := uint64(5000)
		if e.accessAddr(ben) {
			cost += 2600
		}
		bal := new(big.Int).Set(w.balance(f.m.Self))
		if w.dead(ben) && bal.Sign() != 0 {
			cost += 25000
		}
		f.use(cost)
		f.pop()
		w.subBalance(f.m.Self, bal)
		w.addBalance(ben, bal)
		if w.created[f.m.Self] {
			// created in this transaction: the account disappears at the end of the
			// transaction; ether sent to itself is burnt
			if acc := w.accts[f.m.Self]; acc != nil {
				acc.Balance = new(big.Int)
			}
			w.destructed[f.m.Self] = true
		}
		return f.okResult(nil, "selfdestruct")

	default: // includes 0xfe INVALID
		panic(halt{HaltInvalidOp})
	}
	f.pc = next
	return false, Result{}
}

// copyOp implements CALLDATACOPY/CODECOPY (skip=0) and EXTCODECOPY (skip=1: address on top).
func (f *frame) copyOp(src []byte, skip int) {
	f.need(3+skip, 0)
	t := len(f.stack) - 1 - skip
	dst, off, size := f.stack[t], f.stack[t-1], f.stack[t-2]
	words := ceilWords(size)
	base := words.Mul(words, big.NewInt(3))
	if skip == 1 {
		base.Add(base, bi(f.addrAccessCost(WordToAddress(f.stack[len(f.stack)-1]))))
	} else {
		base.Add(base, big.NewInt(3))
	}
	f.chargeMem(base, dst, size)
	for i := 0; i < 3+skip; i++ {
		f.pop()
	}
	f.memWrite(dst, padSlice(src, off, size))
}

func allButOne64th(g uint64) uint64 { return g - g/64 }

// CreateAddress is keccak(rlp([sender, nonce]))[12:].
func CreateAddress(sender Address, nonce uint64) Address {
	return BytesToAddress(Keccak256(rlpList(rlpBytes(sender[:]), rlpUint(nonce)))[12:])
}

// Create2Address is keccak(0xff || sender || salt || keccak(initcode))[12:] (EIP-1014).
func Create2Address(sender Address, salt Hash, initcode []byte) Address {
	return BytesToAddress(Keccak256([]byte{0xff}, sender[:], salt[:], Keccak256(initcode))[12:])
}

func (f *frame) opCreate(is2 bool) {
	e, w := f.e, f.e.w
	n := 3
	if is2 {
		n = 4
	}
	f.need(n, 1)
	if f.m.Static {
		panic(halt{HaltStatic})
	}
	t := len(f.stack) - 1
	value, off, size := f.stack[t], f.stack[t-1], f.stack[t-2]
	words := ceilWords(size)
	base := big.NewInt(32000)
	per := int64(2) // EIP-3860 init code word cost
	if is2 {
		per += 6 // hashing cost of CREATE2
	}
	base.Add(base, new(big.Int).Mul(words, big.NewInt(per)))
	f.chargeMem(base, off, size)
	if size.Cmp(big.NewInt(49152)) > 0 { // EIP-3860
		panic(halt{HaltInitcodeSize})
	}
	var salt Hash
	if is2 {
		salt = WordToHash(f.stack[t-3])
	}
	for i := 0; i < n; i++ {
		f.pop()
	}
	initcode := f.memRead(off, size)
	childGas := allButOne64th(f.gas)
	f.gas -= childGas
	f.ret = nil
	self := f.m.Self
	if w.balance(self).Cmp(value) < 0 || w.nonce(self) == ^uint64(0) || f.m.Depth+1 > 1024 {
		f.gas += childGas
		f.push(new(big.Int))
		return
	}
	var addr Address
	if is2 {
		addr = Create2Address(self, salt, initcode)
	} else {
		addr = CreateAddress(self, w.nonce(self))
	}
	e.accessAddr(addr)
	w.accts.GetOrNew(self).Nonce++
	if e.collides(addr) {
		// collision (EIP-684, EIP-7610): the forwarded gas is consumed
		f.push(new(big.Int))
		return
	}
	e.emit(f, "")
	r := e.createMessage(&Message{Caller: self, Self: addr, CodeAddr: addr, Value: value, Transfer: true,
		Gas: childGas, Depth: f.m.Depth + 1, Create: true, Code: initcode})
	f.gas += r.GasLeft
	if r.OK {
		f.ret = nil
		f.push(addr.Big())
	} else {
		f.ret = r.Output // revert data; empty after an exceptional halt
		if !r.Revert {
			f.ret = nil
		}
		f.push(new(big.Int))
	}
}

func (f *frame) opCall(op byte) {
	e, w := f.e, f.e.w
	hasValue := op == 0xf1 || op == 0xf2
	n := 6
	if hasValue {
		n = 7
	}
	f.need(n, 1)
	t := len(f.stack) - 1
	gasReq, to := f.stack[t], WordToAddress(f.stack[t-1])
	value := bigZero
	i := t - 2
	if hasValue {
		value = f.stack[i]
		i--
	}
	inOff, inSize, outOff, outSize := f.stack[i], f.stack[i-1], f.stack[i-2], f.stack[i-3]
	if op == 0xf1 && f.m.Static && value.Sign() != 0 {
		panic(halt{HaltStatic})
	}
	memCost, newSize := f.expansion(inOff, inSize, outOff, outSize)
	extra := new(big.Int).SetUint64(f.addrAccessCost(to))
	// EIP-7702: resolve a delegation designator one hop
	codeAddr := to
	code := w.code(to)
	noPre := false
	if e.B.Fork >= Prague {
		if d, ok := ParseDelegation(code); ok {
			extra.Add(extra, bi(f.addrAccessCost(d)))
			codeAddr, code, noPre = d, w.code(d), true
		}
	}
	if value.Sign() != 0 {
		extra.Add(extra, big.NewInt(9000))
		if op == 0xf1 && w.dead(to) {
			extra.Add(extra, big.NewInt(25000))
		}
	}
	// gas forwarded: min(requested, all but one 64th of what is left after the other costs)
	fixed := new(big.Int).Add(extra, memCost)
	var fwd uint64
	if !fixed.IsUint64() || fixed.Uint64() > f.gas {
		f.useBig(fixed) // halts
	}
	avail := allButOne64th(f.gas - fixed.Uint64())
	if gasReq.IsUint64() && gasReq.Uint64() < avail {
		fwd = gasReq.Uint64()
	} else {
		fwd = avail
	}
	f.useBig(new(big.Int).Add(fixed, bi(fwd)))
	f.grow(newSize)
	for k := 0; k < n; k++ {
		f.pop()
	}
	childGas := fwd
	if value.Sign() != 0 {
		childGas += 2300 // stipend
	}
	f.ret = nil
	input := f.memRead(inOff, inSize)
	// preconditions: balance (only when value is transferred) and depth
	if (hasValue && w.balance(f.m.Self).Cmp(value) < 0) || f.m.Depth+1 > 1024 {
		f.gas += childGas
		f.push(new(big.Int))
		return
	}
	m := &Message{Data: input, Gas: childGas, Depth: f.m.Depth + 1, Static: f.m.Static, Code: code, CodeAddr: codeAddr, NoPrecompile: noPre}
	switch op {
	case 0xf1: // CALL
		m.Caller, m.Self, m.Value, m.Transfer = f.m.Self, to, value, true
	case 0xf2: // CALLCODE: own storage, callee code, value "sent" to self
		m.Caller, m.Self, m.Value, m.Transfer = f.m.Self, f.m.Self, value, false
	case 0xf4: // DELEGATECALL: caller and value inherited
		m.Caller, m.Self, m.Value, m.Transfer = f.m.Caller, f.m.Self, f.m.Value, false
	case 0xfa: // STATICCALL
		m.Caller, m.Self, m.Value, m.Transfer, m.Static = f.m.Self, to, bigZero, false, true
	}
	e.emit(f, "")
	r := e.callMessage(m)
	f.gas += r.GasLeft
	if r.OK || r.Revert {
		f.ret = r.Output
	}
	if outSize.Sign() != 0 && len(f.ret) > 0 {
		nOut := len(f.ret)
		if outSize.IsUint64() && outSize.Uint64() < uint64(nOut) {
			nOut = int(outSize.Uint64())
		}
		f.memWrite(outOff, f.ret[:nOut])
	}
	f.pushBool(r.OK)
}
