package refevm

import "math/big"

// This file is the in-process API for the supporting harnesses (C27, C28, C29, C32, C37).
//
//	Transition(fork, pre, env, txs, trace, cov)  block level, transition-tool semantics (C26)
//	ApplyTx(state, blockEnv, blockCtx, tx, ...)  one transaction incl. validity, fees, refunds
//	Exec(state, blockEnv, msg, opts)             one message (call or create) without fees:
//	                                             the counterpart of core/vm/runtime.Call/Create
//
// All of them work on the model State (map address -> *Account); Exec and ApplyTx modify the
// state they are given, Transition works on a copy.

// ExecMsg describes one top-level message for Exec.
type ExecMsg struct {
	From       Address
	To         *Address // nil = contract creation (address from From's nonce, nonce incremented)
	Value      *big.Int // nil = 0; a missing balance makes the message fail like an inner CALL would
	Data       []byte   // call data, or init code for creations
	Gas        uint64
	GasPrice   *big.Int // GASPRICE (nil = 0)
	AccessList []AccessTuple
	BlobHashes []Hash
	Static     bool // run the top-level frame in static mode (as STATICCALL would)
}

// ExecOpts tunes Exec.
type ExecOpts struct {
	// NoWarmDefaults leaves sender, destination, precompiles and coinbase cold (by default they
	// are warm exactly as at the start of a transaction).
	NoWarmDefaults bool
	// Finalise applies the end-of-transaction rules (delete self-destructed and touched empty
	// accounts) to the state.
	Finalise bool
	Tracer   func(*Step)
	Cov      *Coverage
}

// ExecResult is the outcome of Exec.
type ExecResult struct {
	OK, Revert bool
	Err        string // halting reason ("" on success, "revert" for REVERT)
	GasLeft    uint64 // 0 after an exceptional halt
	Output     []byte
	Logs       []Log // logs of the successful execution (none otherwise)
	Refund     int64 // refund counter at the end (before the 1/5 cap)
	Created    *Address
	// SelfDestructed lists the accounts scheduled for deletion (created and destroyed in this
	// execution, EIP-6780).
	SelfDestructed   []Address
	MissingBlockhash bool
}

// Exec runs one message on state (modified in place) under the block environment. No gas is
// bought, no intrinsic gas is charged, the sender's nonce is only touched by a creation,
// EIP-7702 delegation of the destination is resolved as for a transaction.
func Exec(state State, env *BlockEnv, msg *ExecMsg, o ExecOpts) *ExecResult {
	w := newWorld(state)
	price := msg.GasPrice
	if price == nil {
		price = new(big.Int)
	}
	value := msg.Value
	if value == nil {
		value = new(big.Int)
	}
	e := &EVM{B: env, T: TxEnv{Origin: msg.From, GasPrice: price, BlobHashes: msg.BlobHashes}, w: w, Tracer: o.Tracer, Cov: o.Cov}
	e.orig = w.accts.Copy()
	if !o.NoWarmDefaults {
		w.warmAddr[msg.From] = true
		w.warmAddr[env.Coinbase] = true
		for _, p := range PrecompileAddresses(env.Fork) {
			w.warmAddr[p] = true
		}
		if msg.To != nil {
			w.warmAddr[*msg.To] = true
		}
	}
	for _, t := range msg.AccessList {
		w.warmAddr[t.Address] = true
		for _, k := range t.Keys {
			w.warmSlot[slotKey{t.Address, k}] = true
		}
	}
	res := &ExecResult{}
	var r Result
	switch {
	case w.balance(msg.From).Cmp(value) < 0:
		r = Result{Err: "insufficient balance for transfer", GasLeft: msg.Gas}
	case msg.To == nil:
		nonce := w.nonce(msg.From)
		addr := CreateAddress(msg.From, nonce)
		res.Created = &addr
		if !o.NoWarmDefaults {
			w.warmAddr[addr] = true
		}
		w.accts.GetOrNew(msg.From).Nonce = nonce + 1
		if e.collides(addr) {
			r = Result{Err: HaltCollision}
		} else {
			r = e.createMessage(&Message{Caller: msg.From, Self: addr, CodeAddr: addr, Value: value, Transfer: true, Gas: msg.Gas, Create: true, Code: msg.Data, Static: msg.Static})
		}
	default:
		to := *msg.To
		m := &Message{Caller: msg.From, Self: to, CodeAddr: to, Value: value, Transfer: true, Data: msg.Data, Gas: msg.Gas, Code: w.code(to), Static: msg.Static}
		if env.Fork >= Prague {
			if d, ok := ParseDelegation(m.Code); ok {
				w.warmAddr[d] = true
				m.Code, m.CodeAddr, m.NoPrecompile = w.code(d), d, true
			}
		}
		r = e.callMessage(m)
	}
	res.OK, res.Revert, res.Err, res.GasLeft, res.Output = r.OK, r.Revert, r.Err, r.GasLeft, r.Output
	res.Refund = w.refund
	res.MissingBlockhash = e.MissingBlockhash
	if r.OK {
		res.Logs = w.logs
	}
	for a := range w.destructed {
		res.SelfDestructed = append(res.SelfDestructed, a)
	}
	if o.Finalise {
		w.endTx()
	}
	w.commitTo(state)
	return res
}

// NewBlockEnv builds the EVM block context of a transition-tool environment (base fee and
// blob fee derived exactly as Transition does); ok=false if the base fee cannot be derived.
func NewBlockEnv(f Fork, env *Env) (*BlockEnv, bool) {
	be := &BlockEnv{Fork: f, ChainID: env.ChainID, Coinbase: env.Coinbase, Number: env.Number, Timestamp: env.Timestamp,
		GasLimit: env.GasLimit, Random: env.Random, Quirks: env.Quirks}
	if be.ChainID == nil {
		be.ChainID = big.NewInt(1)
	}
	be.BlockHash = func(n uint64) (Hash, bool) {
		if env.BlockHashes == nil {
			return Hash{}, false
		}
		h, ok := env.BlockHashes[n]
		return h, ok
	}
	switch {
	case env.BaseFee != nil:
		be.BaseFee = new(big.Int).Set(env.BaseFee)
	case env.ParentBaseFee != nil:
		be.BaseFee = CalcBaseFee(env.ParentBaseFee, env.ParentGasUsed, env.ParentGasLimit)
	default:
		return nil, false
	}
	if env.ExcessBlobGas != nil {
		be.BlobBaseFee = BlobBaseFee(f, *env.ExcessBlobGas)
	} else if env.ParentExcessBlobGas != nil && env.ParentBlobGasUsed != nil {
		pbf := env.ParentBaseFee
		if pbf == nil {
			pbf = new(big.Int)
		}
		be.BlobBaseFee = BlobBaseFee(f, CalcExcessBlobGas(f, *env.ParentExcessBlobGas, *env.ParentBlobGasUsed, pbf))
	}
	return be, true
}

// SystemCall runs an EIP-4788-style system call (caller SystemAddress, 30M gas) on state.
func SystemCall(state State, env *BlockEnv, target Address, data []byte) (out []byte, ok bool, hasCode bool) {
	out, ok, hasCode, _ = systemCall(state, env, target, data, nil, nil)
	return
}
