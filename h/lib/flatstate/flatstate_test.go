package flatstate

import (
	"bytes"
	"math/rand"
	"testing"

	"github.com/ethereum/go-ethereum/common"
	"github.com/ethereum/go-ethereum/core/rawdb"
	"github.com/ethereum/go-ethereum/core/types"
	"github.com/ethereum/go-ethereum/rlp"
	"github.com/ethereum/go-ethereum/trie"
	"github.com/ethereum/go-ethereum/triedb"
	"github.com/holiman/uint256"
)

// Cross-check of the encoders and tries against go-ethereum (sanity of the helper only).
func TestAgainstGeth(t *testing.T) {
	for seed := int64(0); seed < 30; seed++ {
		rng := rand.New(rand.NewSource(seed))
		o := GenOpts{Accounts: rng.Intn(60), MaxSlots: 40, StorageP: 0.5, CodeP: 0.4, ShareCodeP: 0.3, ShareStorP: 0.2,
			Preimages: seed%2 == 0, ClusterP: 0.4, SmallVals: seed%3 == 0}
		s := Gen(rng, o)
		b := s.Build()
		tdb := triedb.NewDatabase(rawdb.NewMemoryDatabase(), nil)
		at := trie.NewEmpty(tdb)
		for h, a := range s.Accounts {
			st := trie.NewEmpty(tdb)
			for k, v := range a.Slots {
				enc, _ := rlp.EncodeToBytes(v)
				if !bytes.Equal(enc, SlotRLP(v)) {
					t.Fatalf("slot rlp")
				}
				st.MustUpdate([]byte(k), enc)
			}
			if st.Hash() != common.BytesToHash(b.Roots[h]) {
				t.Fatalf("seed %d storage root mismatch", seed)
			}
			acc := types.StateAccount{Nonce: a.Nonce, Balance: new(uint256.Int).SetBytes(a.Balance), Root: st.Hash(), CodeHash: a.CodeHash()}
			full, _ := rlp.EncodeToBytes(&acc)
			if !bytes.Equal(full, b.Full[h]) {
				t.Fatalf("full rlp %x vs %x", full, b.Full[h])
			}
			if slim := types.SlimAccountRLP(acc); !bytes.Equal(slim, b.Slim[h]) {
				t.Fatalf("slim rlp %x vs %x", slim, b.Slim[h])
			}
			d, err := DecodeAccount(b.Slim[h])
			if err != nil || d.Nonce != a.Nonce || !bytes.Equal(d.Balance, a.Balance) || !bytes.Equal(d.Root, b.Roots[h]) || !bytes.Equal(d.CodeHash, a.CodeHash()) {
				t.Fatalf("decode slim")
			}
			at.MustUpdate([]byte(h), full)
		}
		if at.Hash() != common.BytesToHash(b.Root) {
			t.Fatalf("seed %d state root mismatch", seed)
		}
	}
}
