// Package flatstate models *flat Ethereum states* for the harnesses: a set of accounts keyed by
// their hashed address (nonce, balance, code, storage slots keyed by hashed slot key), a
// random generator of such states, the two account encodings (full consensus RLP used in the
// account trie, "slim" RLP used in snapshots and on the snap wire), and the derived tries
// (per-account storage tries, the account trie, node sets per owner) computed with the
// reference trie refmpt. It shares no code with go-ethereum (encoders are written with
// refrlp from core/types/state_account.go's format description:
//
//	full : rlp([nonce, balance, storageRoot(32), codeHash(32)])
//	slim : same list, but storageRoot is the empty string when it equals the empty-trie root
//	       and codeHash is the empty string when it equals keccak("")
//
// Storage values are kept as big-endian integers without leading zeros (1..32 bytes); both
// the snapshot and the storage trie hold rlp(value).
package flatstate

import (
	"bytes"
	"errors"
	"math/rand"
	"sort"

	"verif/lib/refmpt"
	"verif/lib/refrlp"
)

// EmptyCodeHash is keccak("").
var EmptyCodeHash = refmpt.Keccak(nil)

// EmptyRoot is the root of the empty trie.
var EmptyRoot = refmpt.EmptyRoot

// Account is one account of a flat state. Maps are keyed by string(32-byte hash).
type Account struct {
	Hash    string            // 32-byte hashed address
	Addr    []byte            // 20-byte preimage, nil when the hash was drawn directly
	Nonce   uint64            //
	Balance []byte            // big-endian, no leading zeros (empty = 0), at most 32 bytes
	Code    []byte            // nil/empty = no code
	Slots   map[string][]byte // hashed slot key -> value (big-endian, no leading zeros, 1..32 bytes)
	SlotPre map[string][]byte // hashed slot key -> 32-byte raw key (only in preimage mode)
}

// State is a flat state.
type State struct {
	Accounts map[string]*Account
}

// CodeHash returns keccak(code) (EmptyCodeHash for code-less accounts).
func (a *Account) CodeHash() []byte {
	if len(a.Code) == 0 {
		return EmptyCodeHash
	}
	return refmpt.Keccak(a.Code)
}

// SlotRLP is the representation of a storage value in the snapshot and in the storage trie.
func SlotRLP(v []byte) []byte { return refrlp.EncodeString(v) }

// SlotMap returns the storage as trie content: hashed key -> rlp(value).
func (a *Account) SlotMap() map[string][]byte {
	m := make(map[string][]byte, len(a.Slots))
	for k, v := range a.Slots {
		m[k] = SlotRLP(v)
	}
	return m
}

// StorageTrie builds the reference storage trie of the account.
func (a *Account) StorageTrie() *refmpt.Trie { return refmpt.Build(a.SlotMap()) }

func uintBytes(x uint64) []byte {
	var b []byte
	for ; x > 0; x >>= 8 {
		b = append([]byte{byte(x)}, b...)
	}
	return b
}

// FullRLP is the consensus encoding of an account (value of the account trie).
func FullRLP(nonce uint64, balance, root, codeHash []byte) []byte {
	return refrlp.EncodeListRaw(refrlp.EncodeString(uintBytes(nonce)), refrlp.EncodeString(balance),
		refrlp.EncodeString(root), refrlp.EncodeString(codeHash))
}

// SlimRLP is the snapshot / snap-wire encoding of an account.
func SlimRLP(nonce uint64, balance, root, codeHash []byte) []byte {
	if bytes.Equal(root, EmptyRoot) {
		root = nil
	}
	if bytes.Equal(codeHash, EmptyCodeHash) {
		codeHash = nil
	}
	return refrlp.EncodeListRaw(refrlp.EncodeString(uintBytes(nonce)), refrlp.EncodeString(balance),
		refrlp.EncodeString(root), refrlp.EncodeString(codeHash))
}

// DecodedAccount is a decoded slim or full account.
type DecodedAccount struct {
	Nonce    uint64
	Balance  []byte
	Root     []byte // always 32 bytes (the empty root is substituted in slim form)
	CodeHash []byte // always 32 bytes
}

// DecodeAccount decodes a slim or full account encoding.
func DecodeAccount(b []byte) (*DecodedAccount, error) {
	it, err := refrlp.Decode(b)
	if err != nil {
		return nil, err
	}
	if !it.IsList || len(it.List) != 4 {
		return nil, errors.New("flatstate: account is not a 4-item list")
	}
	for _, c := range it.List {
		if c.IsList {
			return nil, errors.New("flatstate: nested list in account")
		}
	}
	d := &DecodedAccount{Balance: it.List[1].Str, Root: it.List[2].Str, CodeHash: it.List[3].Str}
	if len(it.List[0].Str) > 8 {
		return nil, errors.New("flatstate: nonce too long")
	}
	for _, c := range it.List[0].Str {
		d.Nonce = d.Nonce<<8 | uint64(c)
	}
	if len(d.Root) == 0 {
		d.Root = EmptyRoot
	}
	if len(d.CodeHash) == 0 {
		d.CodeHash = EmptyCodeHash
	}
	if len(d.Root) != 32 || len(d.CodeHash) != 32 {
		return nil, errors.New("flatstate: bad root/codehash length")
	}
	return d, nil
}

// Full returns the full encoding of the account with the given storage root.
func (a *Account) Full(root []byte) []byte { return FullRLP(a.Nonce, a.Balance, root, a.CodeHash()) }

// Slim returns the slim encoding of the account with the given storage root.
func (a *Account) Slim(root []byte) []byte { return SlimRLP(a.Nonce, a.Balance, root, a.CodeHash()) }

// Built is a state with all derived tries.
type Built struct {
	State    *State
	Root     []byte                  // state root
	Accounts *refmpt.Trie            // account trie: account hash -> full RLP
	Storage  map[string]*refmpt.Trie // account hash -> storage trie (every account; empty tries have no nodes)
	Roots    map[string][]byte       // account hash -> storage root
	Slim     map[string][]byte       // account hash -> slim RLP (correct root)
	Full     map[string][]byte       // account hash -> full RLP (correct root)
	Codes    map[string][]byte       // code hash -> code (non-empty codes only)
}

// Build derives all tries of the state.
func (s *State) Build() *Built {
	b := &Built{State: s, Storage: map[string]*refmpt.Trie{}, Roots: map[string][]byte{}, Slim: map[string][]byte{},
		Full: map[string][]byte{}, Codes: map[string][]byte{}}
	for h, a := range s.Accounts {
		st := a.StorageTrie()
		b.Storage[h] = st
		b.Roots[h] = st.Root
		b.Slim[h] = a.Slim(st.Root)
		b.Full[h] = a.Full(st.Root)
		if len(a.Code) > 0 {
			b.Codes[string(a.CodeHash())] = a.Code
		}
	}
	b.Accounts = refmpt.Build(b.Full)
	b.Root = b.Accounts.Root
	return b
}

// NodeSets returns the canonical path-keyed node set per owner ("" = account trie, otherwise
// the account hash); owners with an empty storage trie are omitted. Paths are nibble strings
// (one byte per nibble) as in refmpt.Trie.Nodes.
func (b *Built) NodeSets() map[string]map[string][]byte {
	m := map[string]map[string][]byte{}
	if len(b.Accounts.Nodes) > 0 {
		m[""] = b.Accounts.Nodes
	}
	for h, t := range b.Storage {
		if len(t.Nodes) > 0 {
			m[h] = t.Nodes
		}
	}
	return m
}

// SortedHashes returns the account hashes in ascending order.
func (s *State) SortedHashes() []string {
	out := make([]string, 0, len(s.Accounts))
	for h := range s.Accounts {
		out = append(out, h)
	}
	sort.Strings(out)
	return out
}

// SortedSlots returns the slot hashes of the account in ascending order.
func (a *Account) SortedSlots() []string {
	out := make([]string, 0, len(a.Slots))
	for h := range a.Slots {
		out = append(out, h)
	}
	sort.Strings(out)
	return out
}

// ---- generation ----

// GenOpts parameterises Gen.
type GenOpts struct {
	Accounts   int     // number of accounts
	MaxSlots   int     // upper bound of slots per account
	StorageP   float64 // probability that an account has storage at all
	CodeP      float64 // probability that an account has code
	ShareCodeP float64 // probability that a code-carrying account reuses an earlier code
	ShareStorP float64 // probability that a storage-carrying account copies an earlier account's storage
	Preimages  bool    // draw 20-byte addresses / 32-byte slot keys and hash them (else draw the hashes directly)
	Nibbles    []byte  // allowed first nibbles of account hashes (nil = any)
	ClusterP   float64 // (direct mode) probability that a new key copies a random-length nibble prefix of an earlier key
	SmallVals  bool    // prefer 1-byte storage values (gives embedded (<32 byte) nodes with clustered keys)
	MaxCode    int     // maximal code length (default 64)
	// MaxAcctShared caps the number of leading nibbles a clustered account hash shares with an
	// earlier one (0 = 63). Account hashes sharing 63 nibbles put an account-trie leaf at path
	// length 64, which go-ethereum's composite sync paths / path-scheme keys deliberately do not
	// distinguish from a storage root ("means a hash collision was found", trie/sync.go).
	MaxAcctShared int
}

// RandKey draws a 32-byte key; with probability clusterP it shares a random-length nibble
// prefix (1..63 nibbles) with a random earlier key. The result differs from all keys in seen.
func RandKey(rng *rand.Rand, earlier []string, seen map[string]bool, clusterP float64) string {
	return RandKeyMax(rng, earlier, seen, clusterP, 63)
}

// RandKeyMax is RandKey with a cap on the number of shared leading nibbles (1..63).
func RandKeyMax(rng *rand.Rand, earlier []string, seen map[string]bool, clusterP float64, maxShared int) string {
	if maxShared <= 0 || maxShared > 63 {
		maxShared = 63
	}
	for {
		k := make([]byte, 32)
		rng.Read(k)
		if len(earlier) > 0 && rng.Float64() < clusterP {
			src := earlier[rng.Intn(len(earlier))]
			var n int
			switch rng.Intn(4) {
			case 0:
				n = 1 + rng.Intn(3)
			case 1:
				n = 60 + rng.Intn(4)
			default:
				n = 1 + rng.Intn(63)
			}
			if n > maxShared {
				n = maxShared
			}
			nib := refmpt.KeyToNibbles([]byte(src))
			mine := refmpt.KeyToNibbles(k)
			copy(mine[:n], nib[:n])
			// force divergence right after the shared prefix
			if mine[n] == nib[n] {
				mine[n] = (nib[n] + 1 + byte(rng.Intn(15))) & 15
			}
			k = refmpt.NibblesToKey(mine)
		}
		if !seen[string(k)] {
			return string(k)
		}
	}
}

func randValue(rng *rand.Rand, small bool) []byte {
	n := 1 + rng.Intn(32)
	if small && rng.Intn(4) != 0 {
		n = 1
	} else if rng.Intn(3) == 0 {
		n = 1 + rng.Intn(3)
	}
	v := make([]byte, n)
	rng.Read(v)
	if v[0] == 0 {
		v[0] = 1 + byte(rng.Intn(255))
	}
	return v
}

func randBalance(rng *rand.Rand) []byte {
	switch rng.Intn(5) {
	case 0:
		return nil
	case 1:
		b := make([]byte, 32)
		rng.Read(b)
		if b[0] == 0 {
			b[0] = 0x80
		}
		return b
	default:
		return randValue(rng, false)
	}
}

// GenStorage draws n distinct slots.
func GenStorage(rng *rand.Rand, n int, o GenOpts) (slots, pre map[string][]byte) {
	slots = make(map[string][]byte, n)
	if o.Preimages {
		pre = make(map[string][]byte, n)
	}
	seen := map[string]bool{}
	var earlier []string
	for len(slots) < n {
		var k string
		if o.Preimages {
			raw := make([]byte, 32)
			if rng.Intn(2) == 0 {
				raw[31] = byte(rng.Intn(256))
				raw[30] = byte(rng.Intn(4))
			} else {
				rng.Read(raw)
			}
			k = string(refmpt.Keccak(raw))
			if seen[k] {
				continue
			}
			pre[k] = raw
		} else {
			k = RandKey(rng, earlier, seen, o.ClusterP)
		}
		seen[k] = true
		earlier = append(earlier, k)
		slots[k] = randValue(rng, o.SmallVals)
	}
	return
}

// Gen draws a random state.
func Gen(rng *rand.Rand, o GenOpts) *State {
	if o.MaxCode == 0 {
		o.MaxCode = 64
	}
	s := &State{Accounts: map[string]*Account{}}
	seen := map[string]bool{}
	prefixes := map[string]bool{} // (MaxAcctShared+1)-nibble prefixes in use
	var earlier []string
	var codes [][]byte
	var withStorage []*Account
	allowed := func(h string) bool {
		if len(o.Nibbles) == 0 {
			return true
		}
		for _, n := range o.Nibbles {
			if h[0]>>4 == n {
				return true
			}
		}
		return false
	}
	for len(s.Accounts) < o.Accounts {
		a := &Account{}
		if o.Preimages {
			a.Addr = make([]byte, 20)
			rng.Read(a.Addr)
			a.Hash = string(refmpt.Keccak(a.Addr))
			if seen[a.Hash] || !allowed(a.Hash) {
				continue
			}
		} else {
			h := []byte(RandKeyMax(rng, earlier, seen, o.ClusterP, o.MaxAcctShared))
			if len(o.Nibbles) > 0 && !allowed(string(h)) {
				h[0] = o.Nibbles[rng.Intn(len(o.Nibbles))]<<4 | h[0]&15
				if seen[string(h)] {
					continue
				}
			}
			a.Hash = string(h)
		}
		if o.MaxAcctShared > 0 && o.MaxAcctShared < 63 {
			// enforce the cap against *all* earlier hashes (clustering is transitive)
			pk := a.Hash[:(o.MaxAcctShared+2)/2]
			if (o.MaxAcctShared+1)%2 == 1 {
				pk = pk[:len(pk)-1] + string([]byte{pk[len(pk)-1] & 0xf0})
			}
			if prefixes[pk] {
				continue
			}
			prefixes[pk] = true
		}
		seen[a.Hash] = true
		earlier = append(earlier, a.Hash)
		if rng.Intn(3) != 0 {
			a.Nonce = uint64(rng.Intn(1000))
			if rng.Intn(20) == 0 {
				a.Nonce = rng.Uint64()
			}
		}
		a.Balance = randBalance(rng)
		if rng.Float64() < o.CodeP {
			if len(codes) > 0 && rng.Float64() < o.ShareCodeP {
				a.Code = codes[rng.Intn(len(codes))]
			} else {
				a.Code = make([]byte, 1+rng.Intn(o.MaxCode))
				rng.Read(a.Code)
				codes = append(codes, a.Code)
			}
		}
		a.Slots = map[string][]byte{}
		if o.MaxSlots > 0 && rng.Float64() < o.StorageP {
			if len(withStorage) > 0 && rng.Float64() < o.ShareStorP {
				src := withStorage[rng.Intn(len(withStorage))]
				for k, v := range src.Slots {
					a.Slots[k] = v
				}
				if src.SlotPre != nil {
					a.SlotPre = map[string][]byte{}
					for k, v := range src.SlotPre {
						a.SlotPre[k] = v
					}
				}
			} else {
				n := 1 + rng.Intn(o.MaxSlots)
				if rng.Intn(2) == 0 { // skew towards small storages
					n = 1 + rng.Intn(1+o.MaxSlots/8)
				}
				a.Slots, a.SlotPre = GenStorage(rng, n, o)
			}
			withStorage = append(withStorage, a)
		}
		s.Accounts[a.Hash] = a
	}
	return s
}
