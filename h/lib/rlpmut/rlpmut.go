// Package rlpmut derives hostile byte strings from valid RLP encodings: single-point Structural
// defects introduced while re-encoding an item tree (refrlp.Item), and byte-level edits.
// Shared by the C01/C02 harnesses.
package rlpmut

import (
	"math/rand"

	"verif/lib/refrlp"
)

type Kind int

const (
	None           Kind = iota
	LongFormShort       // long-form header for a payload < 56 bytes
	LeadingZeroLen      // long-form header whose length has a leading zero byte
	WrapSingle          // single byte < 0x80 written as 0x81 xx
	LenPlus             // header length + 1, payload unchanged
	LenMinus            // header length - 1, payload unchanged
	LeadZeroStr         // 0x00 prepended to a string payload (non-canonical integer)
	KindSwap            // string header <-> list header over the same payload
	Truncate
	Append
	Flip
	Insert
	Delete
	Random // fully random string
	NumKinds
)

var names = [...]string{"none", "longform-short", "leadzero-len", "wrap-single", "len+1", "len-1", "leadzero-str", "kind-swap", "truncate", "append", "flip", "insert", "delete", "random"}

func (m Kind) String() string { return names[m] }

// Structural reports whether m is applied inside the sloppy encoder.
func (m Kind) Structural() bool { return m >= LongFormShort && m <= KindSwap }

// NonCanonByConstruction: the result cannot be canonical RLP whatever the node.
func (m Kind) NonCanonByConstruction() bool {
	return m == LongFormShort || m == LeadingZeroLen || m == WrapSingle
}

func CountNodes(it *refrlp.Item) int {
	n := 1
	for _, c := range it.List {
		n += CountNodes(c)
	}
	return n
}

func Header(base byte, n int, m Kind) []byte {
	be := func(x int, width int) []byte {
		b := make([]byte, width)
		for i := width - 1; i >= 0; i-- {
			b[i] = byte(x)
			x >>= 8
		}
		return b
	}
	width := func(x int) int {
		w := 0
		for ; x > 0; x >>= 8 {
			w++
		}
		if w == 0 {
			w = 1
		}
		return w
	}
	switch m {
	case LongFormShort:
		if n < 56 {
			return append([]byte{base + 55 + 1}, byte(n))
		}
	case LeadingZeroLen:
		w := width(n) + 1
		return append([]byte{base + 55 + byte(w)}, be(n, w)...)
	}
	if n < 56 {
		return []byte{base + byte(n)}
	}
	w := width(n)
	return append([]byte{base + 55 + byte(w)}, be(n, w)...)
}

// sloppy encodes it canonically except for defect m at pre-order node index *target
// (decremented while walking). applied reports whether the defect was applicable there; if
// the chosen node does not admit the defect, the next admissible node in pre-order takes it.
func Sloppy(it *refrlp.Item, m Kind, target *int, applied *bool) []byte {
	here := false
	if !*applied {
		if *target <= 0 {
			here = true
		}
		*target--
	}
	if !it.IsList {
		s := it.Str
		if here {
			switch m {
			case WrapSingle:
				if len(s) == 1 && s[0] < 0x80 {
					*applied = true
					return []byte{0x81, s[0]}
				}
			case LongFormShort:
				if len(s) < 56 {
					*applied = true
					return append(Header(0x80, len(s), m), s...)
				}
			case LeadingZeroLen:
				*applied = true
				return append(Header(0x80, len(s), m), s...)
			case LenPlus:
				*applied = true
				return append(Header(0x80, len(s)+1, None), s...)
			case LenMinus:
				if len(s) >= 2 {
					*applied = true
					return append(Header(0x80, len(s)-1, None), s...)
				}
			case LeadZeroStr:
				*applied = true
				return refrlp.EncodeString(append([]byte{0}, s...))
			case KindSwap:
				*applied = true
				return append(Header(0xc0, len(s), None), s...)
			}
		}
		return refrlp.EncodeString(s)
	}
	// decide before descending so that a defect assigned to this node is not stolen
	mine := false
	if here {
		switch m {
		case LongFormShort, LeadingZeroLen, LenPlus, LenMinus, KindSwap:
			mine = true
			*applied = true
		}
	}
	var body []byte
	for _, c := range it.List {
		body = append(body, Sloppy(c, m, target, applied)...)
	}
	if mine {
		switch m {
		case LongFormShort:
			if len(body) < 56 {
				return append(Header(0xc0, len(body), m), body...)
			}
			return append(Header(0xc0, len(body), LeadingZeroLen), body...)
		case LeadingZeroLen:
			return append(Header(0xc0, len(body), m), body...)
		case LenPlus:
			return append(Header(0xc0, len(body)+1, None), body...)
		case LenMinus:
			if len(body) == 0 {
				return append(Header(0xc0, 1, None), body...)
			}
			return append(Header(0xc0, len(body)-1, None), body...)
		case KindSwap:
			if len(body) == 1 && body[0] < 0x80 {
				return []byte{0x81, body[0]} // still a defect: wrapped single byte
			}
			return append(Header(0x80, len(body), None), body...)
		}
	}
	return append(Header(0xc0, len(body), None), body...)
}

// mutate derives a byte string from the valid encoding enc (whose tree is it; it may be nil,
// then only byte-level mutations are used). It returns the kind actually applied.
func Mutate(rng *rand.Rand, enc []byte, it *refrlp.Item) ([]byte, Kind) {
	m := Kind(1 + rng.Intn(int(Random)-1))
	if it == nil && m.Structural() {
		m = Truncate + Kind(rng.Intn(int(Random-Truncate)))
	}
	if m.Structural() {
		target := rng.Intn(CountNodes(it))
		applied := false
		out := Sloppy(it, m, &target, &applied)
		if applied {
			return out, m
		}
		m = Flip
	}
	out := append([]byte{}, enc...)
	switch m {
	case Truncate:
		if len(out) > 0 {
			out = out[:rng.Intn(len(out))]
		}
	case Append:
		extra := make([]byte, 1+rng.Intn(3))
		rng.Read(extra)
		if rng.Intn(2) == 0 {
			extra = []byte{[]byte{0x00, 0x80, 0xc0, 0x7f}[rng.Intn(4)]}
		}
		out = append(out, extra...)
	case Flip:
		if len(out) > 0 {
			i := rng.Intn(len(out))
			if rng.Intn(3) == 0 {
				i = rng.Intn(min(len(out), 4)) // headers live at the front
			}
			switch rng.Intn(4) {
			case 0:
				out[i]++
			case 1:
				out[i]--
			case 2:
				out[i] ^= 1 << uint(rng.Intn(8))
			default:
				out[i] = byte(rng.Intn(256))
			}
		}
	case Insert:
		i := rng.Intn(len(out) + 1)
		b := byte(rng.Intn(256))
		if rng.Intn(2) == 0 {
			b = 0
		}
		out = append(out[:i], append([]byte{b}, out[i:]...)...)
	case Delete:
		if len(out) > 0 {
			i := rng.Intn(len(out))
			out = append(out[:i], out[i+1:]...)
		}
	}
	return out, m
}

// randomString returns a fully random string biased towards header bytes.
func RandomString(rng *rand.Rand) []byte {
	n := rng.Intn(300)
	if rng.Intn(3) == 0 {
		n = rng.Intn(12)
	}
	b := make([]byte, n)
	rng.Read(b)
	for i := 0; i < n; i++ {
		if rng.Intn(4) == 0 {
			b[i] = []byte{0x00, 0x01, 0x7f, 0x80, 0x81, 0xb7, 0xb8, 0xb9, 0xbf, 0xc0, 0xc1, 0xf7, 0xf8, 0xf9, 0xff, 0x37, 0x38}[rng.Intn(17)]
		}
		if i > 8 && rng.Intn(3) > 0 {
			break // random tail
		}
	}
	return b
}
