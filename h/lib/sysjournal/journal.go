// Package sysjournal records a workload's file-system syscalls with strace, interprets the
// journal into a per-file model (current bytes as the process saw them, durable bytes as of
// the last fsync) and generates the crash states the stated crash model allows at any journal
// position (DESIGN.md 3.9 and appendix B).
//
// Crash models:
//
//	kill   the process stops, the OS survives: every file has its current content.
//	power  unsynced data may be lost: each file with unsynced changes independently either
//	       loses them (content = last synced content, cut or zero-extended to a length between
//	       the synced and the current size) or keeps a prefix of them (current content up to Z,
//	       zero-filled up to a length L between the synced and current size). Renames, unlinks
//	       and file creations take effect atomically when the syscall completes (directory
//	       entry loss is outside the model).
package sysjournal

import (
	"bufio"
	"bytes"
	"fmt"
	"os"
	"os/exec"
	"path/filepath"
	"regexp"
	"sort"
	"strconv"
	"strings"
)

// TraceSet is the list of syscalls recorded.
const TraceSet = "openat,open,creat,close,lseek,read,write,pread64,pwrite64,ftruncate,truncate,fsync,fdatasync,sync_file_range,renameat,renameat2,rename,unlinkat,unlink,mkdirat,mkdir,rmdir,copy_file_range,sendfile,splice,dup,dup2,dup3,fcntl,fallocate,mmap,writev,pwritev,pwritev2,readv,preadv"

// StracePrefix returns the argv prefix that records the journal of the command appended to it.
func StracePrefix(journalPath string, maxStr int) []string {
	return []string{"strace", "-f", "-y", "-xx", "-s", strconv.Itoa(maxStr), "--seccomp-bpf", "-e", "trace=" + TraceSet, "-o", journalPath}
}

// Event is one completed syscall that matters for the model.
type Event struct {
	Line   int // 1-based line number in the journal at which the call completed
	Pid    int
	Name   string
	Args   []string // raw, top-level split
	Ret    int64
	RetStr string
	Failed bool
}

// Mark is a marker line written by the workload to its marker file.
type Mark struct {
	Pos  int // index into Journal.Events of the write that carried it
	Text string
}

// Journal is a parsed journal.
type Journal struct {
	Events   []Event
	Root     string // only paths under Root (a directory) are modelled
	MarkFile string
}

var lineRe = regexp.MustCompile(`^(\d+)\s+(.*)$`)
var retRe = regexp.MustCompile(`\)\s+= `)

// Parse reads a strace -f -y -xx journal.
func Parse(path string) ([]Event, error) {
	f, err := os.Open(path)
	if err != nil {
		return nil, err
	}
	defer f.Close()
	sc := bufio.NewScanner(f)
	sc.Buffer(make([]byte, 1<<20), 1<<30)
	pending := map[int]string{}
	var evs []Event
	ln := 0
	for sc.Scan() {
		ln++
		m := lineRe.FindStringSubmatch(sc.Text())
		if m == nil {
			continue
		}
		pid, _ := strconv.Atoi(m[1])
		rest := m[2]
		if strings.HasPrefix(rest, "---") || strings.HasPrefix(rest, "+++") {
			continue
		}
		if strings.HasSuffix(rest, "<unfinished ...>") {
			pending[pid] = strings.TrimSuffix(rest, "<unfinished ...>")
			continue
		}
		if strings.HasPrefix(rest, "<... ") {
			i := strings.Index(rest, " resumed>")
			if i < 0 {
				continue
			}
			pre, ok := pending[pid]
			if !ok {
				continue
			}
			delete(pending, pid)
			rest = pre + rest[i+len(" resumed>"):]
		}
		ev, ok := parseCall(rest)
		if !ok {
			continue
		}
		ev.Line = ln
		ev.Pid = pid
		evs = append(evs, ev)
	}
	return evs, sc.Err()
}

func parseCall(s string) (Event, bool) {
	var ev Event
	i := strings.IndexByte(s, '(')
	if i <= 0 {
		return ev, false
	}
	ev.Name = s[:i]
	// find the matching ") = " from the right
	// (resumed calls are printed as ")             = 0" with padding)
	locs := retRe.FindAllStringIndex(s, -1)
	if len(locs) == 0 {
		// e.g. exit_group(0) = ?
		return ev, false
	}
	j, jend := locs[len(locs)-1][0], locs[len(locs)-1][1]
	argstr := s[i+1 : j]
	ret := strings.TrimSpace(s[jend:])
	ev.RetStr = ret
	ev.Args = splitArgs(argstr)
	if strings.HasPrefix(ret, "-1") || strings.HasPrefix(ret, "?") {
		ev.Failed = true
		ev.Ret = -1
		return ev, true
	}
	num := ret
	for k, c := range ret {
		if !(c >= '0' && c <= '9') && !(k < 2 && (c == 'x' || c == 'X')) && !(c >= 'a' && c <= 'f') {
			num = ret[:k]
			break
		}
	}
	if strings.HasPrefix(num, "0x") {
		v, _ := strconv.ParseUint(num[2:], 16, 64)
		ev.Ret = int64(v)
	} else {
		// decimal (strip any hex letters that slipped in)
		k := 0
		for k < len(num) && num[k] >= '0' && num[k] <= '9' {
			k++
		}
		ev.Ret, _ = strconv.ParseInt(num[:k], 10, 64)
	}
	return ev, true
}

// splitArgs splits at top-level commas. Strings are "\x.." only (strace -xx), fd
// decorations are <...> without commas inside other than in hex escapes (none).
func splitArgs(s string) []string {
	var out []string
	depth := 0
	inStr := false
	start := 0
	for i := 0; i < len(s); i++ {
		c := s[i]
		switch {
		case c == '"':
			inStr = !inStr
		case inStr:
		case c == '<' || c == '{' || c == '[' || c == '(':
			depth++
		case c == '>' || c == '}' || c == ']' || c == ')':
			if depth > 0 {
				depth--
			}
		case c == ',' && depth == 0:
			out = append(out, strings.TrimSpace(s[start:i]))
			start = i + 1
		}
	}
	if strings.TrimSpace(s[start:]) != "" || len(out) > 0 {
		out = append(out, strings.TrimSpace(s[start:]))
	}
	return out
}

// unhex decodes a "\x41\x42"... strace string literal (with quotes, optional trailing
// "..."). truncated reports the "..." suffix.
func unhex(lit string) (b []byte, truncated bool, ok bool) {
	lit = strings.TrimSpace(lit)
	if strings.HasSuffix(lit, "...") {
		truncated = true
		lit = strings.TrimSuffix(lit, "...")
	}
	if len(lit) < 2 || lit[0] != '"' || lit[len(lit)-1] != '"' {
		return nil, truncated, false
	}
	lit = lit[1 : len(lit)-1]
	if len(lit)%4 != 0 {
		return nil, truncated, false
	}
	b = make([]byte, 0, len(lit)/4)
	for i := 0; i < len(lit); i += 4 {
		if lit[i] != '\\' || lit[i+1] != 'x' {
			return nil, truncated, false
		}
		v, err := strconv.ParseUint(lit[i+2:i+4], 16, 8)
		if err != nil {
			return nil, truncated, false
		}
		b = append(b, byte(v))
	}
	return b, truncated, true
}

// fdNum parses "6<\x2f...>" or "6<...>(deleted)" or "AT_FDCWD<...>".
func fdNum(a string) (fd int, path string) {
	i := strings.IndexByte(a, '<')
	numStr := a
	if i >= 0 {
		numStr = a[:i]
		j := strings.LastIndexByte(a, '>')
		if j > i {
			path = decodeHexPath(a[i+1 : j])
		}
	}
	if numStr == "AT_FDCWD" {
		return -100, path
	}
	fd, err := strconv.Atoi(strings.TrimSpace(numStr))
	if err != nil {
		return -1, path
	}
	return fd, path
}

func decodeHexPath(s string) string {
	var b []byte
	for i := 0; i < len(s); {
		if s[i] == '\\' && i+3 < len(s) && s[i+1] == 'x' {
			v, err := strconv.ParseUint(s[i+2:i+4], 16, 8)
			if err == nil {
				b = append(b, byte(v))
				i += 4
				continue
			}
		}
		b = append(b, s[i])
		i++
	}
	return string(b)
}

// ---------------------------------------------------------------------------------------
// File-system model

type inode struct {
	cur   []byte
	dur   []byte // content at last sync (nil + !everSynced => never synced)
	dirty bool   // modified since last sync
	low   int    // lowest modified offset since last sync (valid if dirty)
	isDir bool
	nlink int
}

type openFile struct {
	ino        *inode
	pos        int64
	appendMode bool
	path       string
	tracked    bool
}

// FS is the incremental model.
type FS struct {
	Root     string
	MarkFile string
	paths    map[string]*inode
	fds      map[int]*openFile
	Marks    []Mark
	Problems []string // interpretation problems (→ inconclusive)
	markBuf  []byte
	evIndex  int
}

func NewFS(root, markFile string) *FS {
	return &FS{Root: filepath.Clean(root), MarkFile: markFile, paths: map[string]*inode{}, fds: map[int]*openFile{}}
}

func (fs *FS) under(p string) bool {
	return p == fs.Root || strings.HasPrefix(p, fs.Root+"/")
}

func (fs *FS) problem(format string, a ...any) {
	if len(fs.Problems) < 20 {
		fs.Problems = append(fs.Problems, fmt.Sprintf(format, a...))
	}
}

func resolve(dirPath, p string) string {
	if !filepath.IsAbs(p) {
		p = filepath.Join(dirPath, p)
	}
	return filepath.Clean(p)
}

func (ino *inode) touch(off int) {
	if !ino.dirty {
		ino.dirty = true
		ino.low = off
	} else if off < ino.low {
		ino.low = off
	}
}

func (ino *inode) writeAt(data []byte, off int64) {
	end := int(off) + len(data)
	if end > len(ino.cur) {
		n := make([]byte, end)
		copy(n, ino.cur)
		ino.cur = n
	} else {
		// copy-on-write so that previously handed-out snapshots stay intact
		ino.cur = append([]byte{}, ino.cur...)
	}
	copy(ino.cur[off:], data)
	t := int(off)
	if t > len(ino.cur) {
		t = len(ino.cur)
	}
	ino.touch(t)
}

func (ino *inode) truncate(n int64) {
	if int(n) < len(ino.cur) {
		ino.cur = append([]byte{}, ino.cur[:n]...)
	} else if int(n) > len(ino.cur) {
		c := make([]byte, n)
		copy(c, ino.cur)
		ino.cur = c
	} else {
		return
	}
	ino.touch(int(min64(n, int64(len(ino.cur)))))
}

func min64(a, b int64) int64 {
	if a < b {
		return a
	}
	return b
}

// Mutating reports whether the event changed the modelled state in a way that creates a new
// crash position (content, durability or namespace change under Root).
type StepInfo struct {
	Mutating bool
	Mark     string // non-empty if the event carried a marker line
}

// Apply interprets one event.
func (fs *FS) Apply(ev Event) StepInfo {
	var info StepInfo
	if ev.Failed {
		return info
	}
	arg := func(i int) string {
		if i < len(ev.Args) {
			return ev.Args[i]
		}
		return ""
	}
	switch ev.Name {
	case "openat", "open", "creat":
		var p, flags string
		if ev.Name == "openat" {
			_, dirp := fdNum(arg(0))
			b, _, ok := unhex(arg(1))
			if !ok {
				return info
			}
			p = resolve(dirp, string(b))
			flags = arg(2)
		} else {
			b, _, ok := unhex(arg(0))
			if !ok {
				return info
			}
			p = resolve("/", string(b))
			flags = arg(1)
			if ev.Name == "creat" {
				flags = "O_CREAT|O_WRONLY|O_TRUNC"
			}
		}
		fd := int(ev.Ret)
		of := &openFile{path: p}
		if p == fs.MarkFile {
			of.tracked = false
			fs.fds[fd] = of
			return info
		}
		if !fs.under(p) {
			delete(fs.fds, fd)
			return info
		}
		of.tracked = true
		ino, ok := fs.paths[p]
		if !ok {
			if !strings.Contains(flags, "O_CREAT") && !strings.Contains(flags, "O_DIRECTORY") {
				// opened something we never saw created: pre-existing file (unknown content)
				fs.problem("open of unknown pre-existing file %s", p)
			}
			ino = &inode{nlink: 1}
			if strings.Contains(flags, "O_DIRECTORY") {
				ino.isDir = true
			}
			fs.paths[p] = ino
			info.Mutating = true
		}
		if strings.Contains(flags, "O_TRUNC") && len(ino.cur) > 0 {
			ino.truncate(0)
			info.Mutating = true
		}
		of.ino = ino
		of.appendMode = strings.Contains(flags, "O_APPEND")
		fs.fds[fd] = of
	case "close":
		fd, _ := fdNum(arg(0))
		delete(fs.fds, fd)
	case "dup", "dup2", "dup3", "fcntl":
		fd, _ := fdNum(arg(0))
		of, ok := fs.fds[fd]
		if !ok {
			return info
		}
		if ev.Name == "fcntl" {
			if !strings.Contains(arg(1), "F_DUPFD") {
				return info
			}
		}
		fs.fds[int(ev.Ret)] = of // shares offset, as dup does
	case "lseek":
		fd, _ := fdNum(arg(0))
		if of, ok := fs.fds[fd]; ok {
			of.pos = ev.Ret
		}
	case "read", "readv":
		fd, _ := fdNum(arg(0))
		if of, ok := fs.fds[fd]; ok {
			of.pos += ev.Ret
		}
	case "write":
		fd, _ := fdNum(arg(0))
		of, ok := fs.fds[fd]
		if !ok {
			return info
		}
		data, trunc, okd := unhex(arg(1))
		if of.path == fs.MarkFile {
			if okd {
				fs.markBuf = append(fs.markBuf, data...)
				for {
					i := bytes.IndexByte(fs.markBuf, '\n')
					if i < 0 {
						break
					}
					line := string(fs.markBuf[:i])
					fs.markBuf = fs.markBuf[i+1:]
					fs.Marks = append(fs.Marks, Mark{Pos: fs.evIndex, Text: line})
					info.Mark = line
				}
			}
			return info
		}
		if !of.tracked {
			return info
		}
		if !okd || trunc || int64(len(data)) < ev.Ret {
			fs.problem("write to %s with truncated/undecodable data (line %d)", of.path, ev.Line)
			return info
		}
		data = data[:ev.Ret]
		off := of.pos
		if of.appendMode {
			off = int64(len(of.ino.cur))
		}
		of.ino.writeAt(data, off)
		of.pos = off + ev.Ret
		info.Mutating = true
	case "pwrite64":
		fd, _ := fdNum(arg(0))
		of, ok := fs.fds[fd]
		if !ok || !of.tracked {
			return info
		}
		data, trunc, okd := unhex(arg(1))
		if !okd || trunc || int64(len(data)) < ev.Ret {
			fs.problem("pwrite to %s with truncated/undecodable data (line %d)", of.path, ev.Line)
			return info
		}
		off, err := strconv.ParseInt(arg(3), 10, 64)
		if err != nil {
			fs.problem("pwrite offset unparsable (line %d)", ev.Line)
			return info
		}
		of.ino.writeAt(data[:ev.Ret], off)
		info.Mutating = true
	case "writev", "pwritev", "pwritev2", "fallocate", "mmap", "splice", "truncate", "sync_file_range":
		// not expected on tracked files; mmap of a tracked fd would bypass the model
		fd, _ := fdNum(arg(0))
		if ev.Name == "mmap" {
			fd, _ = fdNum(arg(4))
		}
		if of, ok := fs.fds[fd]; ok && of.tracked {
			fs.problem("unsupported syscall %s on tracked file %s (line %d)", ev.Name, of.path, ev.Line)
		}
	case "ftruncate":
		fd, _ := fdNum(arg(0))
		of, ok := fs.fds[fd]
		if !ok || !of.tracked {
			return info
		}
		n, err := strconv.ParseInt(arg(1), 10, 64)
		if err != nil {
			fs.problem("ftruncate length unparsable (line %d)", ev.Line)
			return info
		}
		of.ino.truncate(n)
		info.Mutating = true
	case "fsync", "fdatasync":
		fd, _ := fdNum(arg(0))
		of, ok := fs.fds[fd]
		if !ok || !of.tracked {
			return info
		}
		of.ino.dur = of.ino.cur
		of.ino.dirty = false
		info.Mutating = true
	case "copy_file_range":
		// copy_file_range(fd_in, off_in, fd_out, off_out, len, flags) = n
		fin, _ := fdNum(arg(0))
		fout, _ := fdNum(arg(2))
		src, ok1 := fs.fds[fin]
		dst, ok2 := fs.fds[fout]
		if ok2 && dst.tracked {
			if !ok1 || !src.tracked || arg(1) != "NULL" || arg(3) != "NULL" {
				fs.problem("copy_file_range with untracked source or explicit offsets (line %d)", ev.Line)
				return info
			}
			end := src.pos + ev.Ret
			if end > int64(len(src.ino.cur)) {
				fs.problem("copy_file_range beyond modelled source (line %d)", ev.Line)
				return info
			}
			dst.ino.writeAt(append([]byte{}, src.ino.cur[src.pos:end]...), dst.pos)
			src.pos = end
			dst.pos += ev.Ret
			info.Mutating = true
		} else if ok1 {
			src.pos += ev.Ret
		}
	case "sendfile":
		// sendfile(out_fd, in_fd, offset, count) = n
		fout, _ := fdNum(arg(0))
		fin, _ := fdNum(arg(1))
		src, ok1 := fs.fds[fin]
		dst, ok2 := fs.fds[fout]
		if ok2 && dst.tracked {
			if !ok1 || !src.tracked || arg(2) != "NULL" {
				fs.problem("sendfile with untracked source or explicit offset (line %d)", ev.Line)
				return info
			}
			end := src.pos + ev.Ret
			if end > int64(len(src.ino.cur)) {
				fs.problem("sendfile beyond modelled source (line %d)", ev.Line)
				return info
			}
			off := dst.pos
			if dst.appendMode {
				off = int64(len(dst.ino.cur))
			}
			dst.ino.writeAt(append([]byte{}, src.ino.cur[src.pos:end]...), off)
			src.pos = end
			dst.pos = off + ev.Ret
			info.Mutating = true
		} else if ok1 {
			src.pos += ev.Ret
		}
	case "renameat", "renameat2", "rename":
		var oldp, newp string
		if ev.Name == "rename" {
			a, _, ok1 := unhex(arg(0))
			b, _, ok2 := unhex(arg(1))
			if !ok1 || !ok2 {
				return info
			}
			oldp, newp = resolve("/", string(a)), resolve("/", string(b))
		} else {
			_, d1 := fdNum(arg(0))
			a, _, ok1 := unhex(arg(1))
			_, d2 := fdNum(arg(2))
			b, _, ok2 := unhex(arg(3))
			if !ok1 || !ok2 {
				return info
			}
			oldp, newp = resolve(d1, string(a)), resolve(d2, string(b))
		}
		if !fs.under(oldp) && !fs.under(newp) {
			return info
		}
		ino, ok := fs.paths[oldp]
		if !ok {
			fs.problem("rename of unknown path %s (line %d)", oldp, ev.Line)
			return info
		}
		delete(fs.paths, oldp)
		if ino.isDir {
			// move the subtree
			for p, x := range fs.paths {
				if strings.HasPrefix(p, oldp+"/") {
					delete(fs.paths, p)
					fs.paths[newp+strings.TrimPrefix(p, oldp)] = x
				}
			}
		}
		if fs.under(newp) {
			fs.paths[newp] = ino
		}
		info.Mutating = true
	case "unlinkat", "unlink", "rmdir":
		var p string
		if ev.Name == "unlinkat" {
			_, d := fdNum(arg(0))
			a, _, ok := unhex(arg(1))
			if !ok {
				return info
			}
			p = resolve(d, string(a))
		} else {
			a, _, ok := unhex(arg(0))
			if !ok {
				return info
			}
			p = resolve("/", string(a))
		}
		if !fs.under(p) {
			return info
		}
		if _, ok := fs.paths[p]; ok {
			delete(fs.paths, p)
			info.Mutating = true
		}
	case "mkdirat", "mkdir":
		var p string
		if ev.Name == "mkdirat" {
			_, d := fdNum(arg(0))
			a, _, ok := unhex(arg(1))
			if !ok {
				return info
			}
			p = resolve(d, string(a))
		} else {
			a, _, ok := unhex(arg(0))
			if !ok {
				return info
			}
			p = resolve("/", string(a))
		}
		if fs.under(p) {
			fs.paths[p] = &inode{isDir: true, nlink: 1}
			info.Mutating = true
		}
	}
	return info
}

// Step applies event i of evs (bookkeeping for mark positions).
func (fs *FS) Step(i int, ev Event) StepInfo {
	fs.evIndex = i
	return fs.Apply(ev)
}

// FileState describes one modelled regular file at the current position.
type FileState struct {
	Path  string // relative to Root
	Cur   []byte
	Dur   []byte
	Dirty bool
	Low   int
}

// Files returns the regular files currently present, sorted by path.
func (fs *FS) Files() []FileState {
	var out []FileState
	for p, ino := range fs.paths {
		if ino.isDir {
			continue
		}
		rel, _ := filepath.Rel(fs.Root, p)
		out = append(out, FileState{Path: rel, Cur: ino.cur, Dur: ino.dur, Dirty: ino.dirty, Low: ino.low})
	}
	sort.Slice(out, func(i, j int) bool { return out[i].Path < out[j].Path })
	return out
}

// Dirs returns the directories currently present (relative), sorted.
func (fs *FS) Dirs() []string {
	var out []string
	for p, ino := range fs.paths {
		if ino.isDir {
			rel, _ := filepath.Rel(fs.Root, p)
			out = append(out, rel)
		}
	}
	sort.Strings(out)
	return out
}

// SelfCheck compares the model's current content with the real directory tree.
func (fs *FS) SelfCheck() error {
	if len(fs.Problems) > 0 {
		return fmt.Errorf("journal interpretation problems: %s", strings.Join(fs.Problems, "; "))
	}
	model := map[string][]byte{}
	for _, f := range fs.Files() {
		model[f.Path] = f.Cur
	}
	seen := map[string]bool{}
	err := filepath.Walk(fs.Root, func(p string, fi os.FileInfo, err error) error {
		if err != nil {
			return err
		}
		if fi.IsDir() {
			return nil
		}
		rel, _ := filepath.Rel(fs.Root, p)
		seen[rel] = true
		b, err := os.ReadFile(p)
		if err != nil {
			return err
		}
		m, ok := model[rel]
		if !ok {
			return fmt.Errorf("file %s exists on disk but not in the model", rel)
		}
		if !bytes.Equal(b, m) {
			return fmt.Errorf("file %s: model has %d bytes, disk has %d bytes (or content differs)", rel, len(m), len(b))
		}
		return nil
	})
	if err != nil {
		return err
	}
	for rel := range model {
		if !seen[rel] {
			return fmt.Errorf("file %s in the model but not on disk", rel)
		}
	}
	return nil
}

// Record runs argv under strace writing the journal to journalPath; returns the child's
// combined output and exit error.
func Record(journalPath string, maxStr int, env []string, argv ...string) ([]byte, error) {
	args := append(StracePrefix(journalPath, maxStr), argv...)
	cmd := exec.Command(args[0], args[1:]...)
	cmd.Env = env
	return cmd.CombinedOutput()
}
