package sysjournal

import (
	"crypto/sha256"
	"fmt"
	"math/rand"
	"os"
	"path/filepath"
	"sort"
)

// CrashState is one file-system state the crash model allows at a journal position.
type CrashState struct {
	Model string // "kill" | "power"
	Desc  string // which files were altered and how
	Files map[string][]byte
	Dirs  []string
}

// Hash identifies the state's content.
func (c *CrashState) Hash() [32]byte {
	h := sha256.New()
	keys := make([]string, 0, len(c.Files))
	for k := range c.Files {
		keys = append(keys, k)
	}
	sort.Strings(keys)
	for _, k := range keys {
		fmt.Fprintf(h, "%s\x00%d\x00", k, len(c.Files[k]))
		h.Write(c.Files[k])
	}
	var out [32]byte
	copy(out[:], h.Sum(nil))
	return out
}

// Materialize writes the state under dir (which must not exist or be empty).
func (c *CrashState) Materialize(dir string) error {
	if err := os.MkdirAll(dir, 0o755); err != nil {
		return err
	}
	for _, d := range c.Dirs {
		if d == "." {
			continue
		}
		if err := os.MkdirAll(filepath.Join(dir, d), 0o755); err != nil {
			return err
		}
	}
	for p, b := range c.Files {
		full := filepath.Join(dir, p)
		os.MkdirAll(filepath.Dir(full), 0o755)
		if err := os.WriteFile(full, b, 0o644); err != nil {
			return err
		}
	}
	return nil
}

// KillState: every file has its current content.
func (fs *FS) KillState() CrashState {
	cs := CrashState{Model: "kill", Desc: "all current", Files: map[string][]byte{}, Dirs: fs.Dirs()}
	for _, f := range fs.Files() {
		cs.Files[f.Path] = f.Cur
	}
	return cs
}

func lenRange(f FileState) (lo, hi int) {
	lo, hi = len(f.Dur), len(f.Cur)
	if lo > hi {
		lo, hi = hi, lo
	}
	return
}

// oldVariant: unsynced changes lost; length L in [min,max]; content = Dur cut/zero-extended.
func oldVariant(f FileState, L int) []byte {
	out := make([]byte, L)
	copy(out, f.Dur)
	return out
}

// newVariant: current content up to Z, zero-filled to L. Only meaningful when
// len(Cur) >= len(Dur); Z,L in [len(Dur), len(Cur)], Z <= L.
func newVariant(f FileState, Z, L int) []byte {
	out := make([]byte, L)
	copy(out, f.Cur[:Z])
	return out
}

func pickLen(rng *rand.Rand, lo, hi int) int {
	if hi <= lo {
		return lo
	}
	switch rng.Intn(6) {
	case 0:
		return lo
	case 1:
		return hi
	case 2:
		return lo + 1
	case 3:
		return hi - 1
	case 4:
		// multiple of 6 (freezer index entry size) inside the range
		x := lo + rng.Intn(hi-lo+1)
		x -= x % 6
		if x < lo {
			x = lo
		}
		return x
	}
	return lo + rng.Intn(hi-lo+1)
}

// randomVariant picks one allowed content for a dirty file.
func randomVariant(rng *rand.Rand, f FileState) ([]byte, string) {
	if atomicRecord(f) {
		if rng.Intn(2) == 0 {
			return f.Cur, "cur"
		}
		return f.Dur, "old"
	}
	lo, hi := lenRange(f)
	switch k := rng.Intn(3); {
	case k == 0:
		return f.Cur, "cur"
	case k == 1 || len(f.Cur) < len(f.Dur):
		L := pickLen(rng, lo, hi)
		return oldVariant(f, L), fmt.Sprintf("old(L=%d)", L)
	default:
		L := pickLen(rng, len(f.Dur), len(f.Cur))
		Z := pickLen(rng, len(f.Dur), L)
		return newVariant(f, Z, L), fmt.Sprintf("new(Z=%d,L=%d)", Z, L)
	}
}

// AtomicRecordSize: a file not longer than this whose unsynced modifications rewrite bytes
// inside its synced region (a small record updated in place, e.g. the freezer's .meta), or
// which was never synced at all (a small record just created), is treated as sector-atomic: after power loss it holds either the last synced version or the
// current one, never a byte-level mixture (torn sub-sector writes are outside the model).
var AtomicRecordSize = 512

func atomicRecord(f FileState) bool {
	return f.Dirty && (len(f.Dur) == 0 || f.Low < len(f.Dur)) && len(f.Cur) <= AtomicRecordSize && len(f.Dur) <= AtomicRecordSize
}

// PowerStates returns the systematic variant set plus nRandom random combinations for the
// current position. States identical to the kill state are omitted.
func (fs *FS) PowerStates(rng *rand.Rand, nRandom int) []CrashState {
	files := fs.Files()
	dirs := fs.Dirs()
	var dirty []int
	for i, f := range files {
		if f.Dirty {
			dirty = append(dirty, i)
		}
	}
	if len(dirty) == 0 {
		return nil
	}
	base := func() map[string][]byte {
		m := make(map[string][]byte, len(files))
		for _, f := range files {
			m[f.Path] = f.Cur
		}
		return m
	}
	var out []CrashState
	add := func(desc string, m map[string][]byte) {
		out = append(out, CrashState{Model: "power", Desc: desc, Files: m, Dirs: dirs})
	}
	// 1. everything unsynced is lost
	m := base()
	for _, i := range dirty {
		m[files[i].Path] = oldVariant(files[i], len(files[i].Dur))
	}
	add("all-durable", m)
	// 2. each dirty file alone
	for _, i := range dirty {
		f := files[i]
		m = base()
		m[f.Path] = oldVariant(f, len(f.Dur))
		add(f.Path+":old", m)
		if atomicRecord(f) {
			continue
		}
		if len(f.Cur) > len(f.Dur) {
			m = base()
			m[f.Path] = oldVariant(f, len(f.Cur))
			add(f.Path+":old-zero-extended", m)
			mid := (len(f.Dur) + len(f.Cur)) / 2
			m = base()
			m[f.Path] = newVariant(f, mid, len(f.Cur))
			add(fmt.Sprintf("%s:new(Z=%d,L=max)", f.Path, mid), m)
			m = base()
			m[f.Path] = newVariant(f, mid, mid)
			add(fmt.Sprintf("%s:new-cut(L=%d)", f.Path, mid), m)
		} else if len(f.Cur) < len(f.Dur) {
			mid := (len(f.Dur) + len(f.Cur)) / 2
			m = base()
			m[f.Path] = oldVariant(f, mid)
			add(fmt.Sprintf("%s:old-cut(L=%d)", f.Path, mid), m)
		}
	}
	// 3. all dirty files keep only their synced length but the others' newest data: all
	//    other files durable, one file current
	if len(dirty) > 1 {
		for _, keep := range dirty {
			m = base()
			for _, i := range dirty {
				if i != keep {
					m[files[i].Path] = oldVariant(files[i], len(files[i].Dur))
				}
			}
			add(files[keep].Path+":only-this-current", m)
		}
	}
	// 4. random combinations
	for k := 0; k < nRandom; k++ {
		m = base()
		desc := "rand:"
		for _, i := range dirty {
			b, d := randomVariant(rng, files[i])
			m[files[i].Path] = b
			desc += files[i].Path + "=" + d + ","
		}
		add(desc, m)
	}
	return out
}
