//go:build race

package vrt

const raceEnabled = true
