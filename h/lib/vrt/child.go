package vrt

import (
	"bytes"
	"fmt"
	"os"
	"os/exec"
	"syscall"
	"time"
)

// ChildResult describes a finished child process (a re-exec of the harness binary in a
// registered child mode).
type ChildResult struct {
	Exit     int    // exit code, -1 if killed by a signal
	Signal   string // non-empty if signalled
	TimedOut bool
	Output   []byte // combined stdout+stderr (truncated to 1 MiB tail)
}

// Child re-executes this binary with VERIF_CHILD=mode and extra env, waits for it with a
// watchdog and returns its outcome. Used for anything that may os.Exit / log.Crit / panic
// fatally (database reopen, fresh-process baselines).
func (r *Run) Child(mode string, env []string, watchdog time.Duration, prefix ...string) ChildResult {
	self, _ := os.Executable()
	args := append(append([]string{}, prefix...), self)
	cmd := exec.Command(args[0], args[1:]...)
	cmd.Env = append(os.Environ(), "VERIF_CHILD="+mode, "VERIF_OUT=", "VERIF_CASEFILE=")
	cmd.Env = append(cmd.Env, env...)
	var buf bytes.Buffer
	cmd.Stdout = &buf
	cmd.Stderr = &buf
	cmd.SysProcAttr = &syscall.SysProcAttr{Setpgid: true}
	var cr ChildResult
	if err := cmd.Start(); err != nil {
		cr.Exit = 127
		cr.Output = []byte(err.Error())
		return cr
	}
	done := make(chan error, 1)
	go func() { done <- cmd.Wait() }()
	var err error
	select {
	case err = <-done:
	case <-time.After(watchdog):
		cr.TimedOut = true
		syscall.Kill(-cmd.Process.Pid, syscall.SIGQUIT)
		select {
		case err = <-done:
		case <-time.After(10 * time.Second):
			syscall.Kill(-cmd.Process.Pid, syscall.SIGKILL)
			err = <-done
		}
	}
	out := buf.Bytes()
	if len(out) > 1<<20 {
		out = out[len(out)-1<<20:]
	}
	cr.Output = out
	if err != nil {
		if ee, ok := err.(*exec.ExitError); ok {
			ws := ee.Sys().(syscall.WaitStatus)
			if ws.Signaled() {
				cr.Exit = -1
				cr.Signal = ws.Signal().String()
			} else {
				cr.Exit = ws.ExitStatus()
			}
		} else {
			cr.Exit = 127
			cr.Output = append(cr.Output, []byte(fmt.Sprintf("\nwait: %v", err))...)
		}
	}
	return cr
}
