// Package vrt is the runtime shared by every property harness: seeds, per-case PRNGs,
// case logging (for crash attribution), evidence counters, violation/replay recording and
// the result file read by the driver (cmd/vcheck).
//
// Exit codes of a harness binary: 0 held, 1 violation, 3 inconclusive, 4 harness error.
// Exit code 2 is what the Go runtime uses for panics/fatal errors; the driver treats it
// (and any signal) as a crash and attributes it to the last logged case.
package vrt

import (
	"encoding/hex"
	"encoding/json"
	"fmt"
	"hash/fnv"
	"math/rand"
	"os"
	"path/filepath"
	"runtime"
	"runtime/debug"
	"sort"
	"strconv"
	"strings"
	"sync"
	"time"
)

// Violation is one refutation of the property.
type Violation struct {
	Fingerprint string `json:"fingerprint"`
	Msg         string `json:"msg"`
	Replay      string `json:"replay"`
}

// Result is what a harness process hands to the driver.
type Result struct {
	ID           string           `json:"id"`
	Variant      string           `json:"variant"`
	Tier         string           `json:"tier"`
	Seed         int64            `json:"seed"`
	Evaluations  int64            `json:"evaluations"`
	Distinct     int64            `json:"distinct_nontrivial"`
	Rule         string           `json:"rule"`
	Samples      []any            `json:"samples"`
	Counters     map[string]int64 `json:"counters"`
	Extra        map[string]any   `json:"extra,omitempty"`
	Exhaustive   bool             `json:"exhaustive,omitempty"`
	Assumptions  []string         `json:"assumptions,omitempty"`
	Violations   []Violation      `json:"violations"`
	Inconclusive []string         `json:"inconclusive,omitempty"`
	WallS        float64          `json:"wall_s"`
}

// Run is the per-process harness context. All methods are safe for concurrent use.
type Run struct {
	ID      string
	Tier    string // "quick" | "thorough"
	Seed    int64
	Variant string // build variant name chosen by the driver ("default", "race", ...)
	Scratch string // private scratch dir (removed by the driver)
	Replay  string // directory where replay files are written (persisted)

	mu       sync.Mutex
	res      Result
	sigs     map[uint64]struct{}
	caseFile *os.File
	start    time.Time
	maxViol  int
}

// Quick reports whether the quick tier is selected.
func (r *Run) Quick() bool { return r.Tier != "thorough" }

// N picks a size by tier.
func (r *Run) N(quick, thorough int) int {
	if r.Quick() {
		return quick
	}
	return thorough
}

// Race reports whether this binary was built with the race detector.
func (r *Run) Race() bool { return raceEnabled }

// Rand returns the deterministic PRNG of case idx of stream name.
func (r *Run) Rand(stream string, idx int) *rand.Rand {
	h := fnv.New64a()
	fmt.Fprintf(h, "%s|%s|%d|%d", r.ID, stream, r.Seed, idx)
	return rand.New(&splitmix{h.Sum64()})
}

type splitmix struct{ s uint64 }

func (s *splitmix) Uint64() uint64 {
	s.s += 0x9e3779b97f4a7c15
	z := s.s
	z = (z ^ (z >> 30)) * 0xbf58476d1ce4e5b9
	z = (z ^ (z >> 27)) * 0x94d049bb133111eb
	return z ^ (z >> 31)
}
func (s *splitmix) Int63() int64    { return int64(s.Uint64() >> 1) }
func (s *splitmix) Seed(seed int64) { s.s = uint64(seed) }

// Case records the case about to be executed (overwrites the previous record) so that the
// driver can attribute a process death. Cheap (one pwrite).
func (r *Run) Case(format string, a ...any) {
	if r.caseFile == nil {
		return
	}
	s := fmt.Sprintf(format, a...)
	if len(s) > 4000 {
		s = s[:4000]
	}
	b := make([]byte, 4096)
	copy(b, s)
	for i := len(s); i < len(b); i++ {
		b[i] = ' '
	}
	b[len(b)-1] = '\n'
	r.caseFile.WriteAt(b, 0)
}

// Eval counts one judged case. sig is the non-trivial shape signature; "" marks a trivial
// case (counted in evaluations only).
func (r *Run) Eval(sig string) {
	r.mu.Lock()
	r.res.Evaluations++
	if sig != "" {
		h := fnv.New64a()
		h.Write([]byte(sig))
		r.sigs[h.Sum64()] = struct{}{}
	}
	r.mu.Unlock()
}

// EvalN counts n judged cases sharing one signature.
func (r *Run) EvalN(sig string, n int) {
	r.mu.Lock()
	r.res.Evaluations += int64(n)
	if sig != "" {
		h := fnv.New64a()
		h.Write([]byte(sig))
		r.sigs[h.Sum64()] = struct{}{}
	}
	r.mu.Unlock()
}

// Count adds to a named counter reported in the evidence.
func (r *Run) Count(name string, n int) {
	r.mu.Lock()
	r.res.Counters[name] += int64(n)
	r.mu.Unlock()
}

// Counter reads a counter.
func (r *Run) Counter(name string) int64 {
	r.mu.Lock()
	defer r.mu.Unlock()
	return r.res.Counters[name]
}

// Sample keeps up to 5 materialised cases.
func (r *Run) Sample(v any) {
	r.mu.Lock()
	if len(r.res.Samples) < 5 {
		r.res.Samples = append(r.res.Samples, v)
	}
	r.mu.Unlock()
}

// WantSample reports whether more samples are wanted (to avoid building them needlessly).
func (r *Run) WantSample() bool {
	r.mu.Lock()
	defer r.mu.Unlock()
	return len(r.res.Samples) < 5
}

// Rule sets the description of generation and the non-trivial rule.
func (r *Run) Rule(s string) { r.mu.Lock(); r.res.Rule = s; r.mu.Unlock() }

// Assume records an assumption / trusted component.
func (r *Run) Assume(s string) {
	r.mu.Lock()
	r.res.Assumptions = append(r.res.Assumptions, s)
	r.mu.Unlock()
}

// Extra sets a free-form evidence key.
func (r *Run) Extra(k string, v any) { r.mu.Lock(); r.res.Extra[k] = v; r.mu.Unlock() }

// Exhaustive marks that the (stated) finite family was enumerated completely.
func (r *Run) Exhaustive(b bool) { r.mu.Lock(); r.res.Exhaustive = b; r.mu.Unlock() }

// Violation records a refutation. fingerprint is a stable identifier of the failing class
// (matched against known_findings.json by the driver); replay is any JSON-able witness.
// Only the first 20 distinct fingerprints (and 3 witnesses each) are stored.
func (r *Run) Violation(fingerprint, msg string, replay any) {
	r.mu.Lock()
	defer r.mu.Unlock()
	n := 0
	for _, v := range r.res.Violations {
		if v.Fingerprint == fingerprint {
			n++
		}
	}
	r.res.Counters["violations_seen"]++
	if n >= 3 || len(r.res.Violations) >= 60 {
		return
	}
	path := ""
	if r.Replay != "" {
		os.MkdirAll(r.Replay, 0o755)
		name := fmt.Sprintf("%s-%s-s%d-%d.json", sanitize(fingerprint), r.Variant, r.Seed, len(r.res.Violations))
		path = filepath.Join(r.Replay, name)
		b, err := json.MarshalIndent(map[string]any{
			"property": r.ID, "fingerprint": fingerprint, "msg": msg, "seed": r.Seed,
			"tier": r.Tier, "variant": r.Variant, "witness": replay,
		}, "", " ")
		if err != nil {
			b = []byte(fmt.Sprintf("{\"property\":%q,\"fingerprint\":%q,\"msg\":%q,\"witness_error\":%q}", r.ID, fingerprint, msg, err.Error()))
		}
		os.WriteFile(path, b, 0o644)
	}
	r.res.Violations = append(r.res.Violations, Violation{fingerprint, msg, path})
	fmt.Printf("violation[%s] %s: %s (replay %s)\n", r.ID, fingerprint, trunc(msg, 600), path)
}

// Violated reports whether any violation was recorded.
func (r *Run) Violated() bool { r.mu.Lock(); defer r.mu.Unlock(); return len(r.res.Violations) > 0 }

// NumViolations returns the number of stored violations.
func (r *Run) NumViolations() int { r.mu.Lock(); defer r.mu.Unlock(); return len(r.res.Violations) }

// Inconclusive records an unmet coverage obligation.
func (r *Run) Inconclusive(format string, a ...any) {
	r.mu.Lock()
	r.res.Inconclusive = append(r.res.Inconclusive, fmt.Sprintf(format, a...))
	r.mu.Unlock()
}

// Require records inconclusive unless counter name >= min.
func (r *Run) Require(name string, min int64) {
	if c := r.Counter(name); c < min {
		r.Inconclusive("coverage obligation not met: %s = %d < %d", name, c, min)
	}
}

// Logf prints a progress line.
func (r *Run) Logf(format string, a ...any) {
	fmt.Printf("[%s] "+format+"\n", append([]any{r.ID}, a...)...)
}

// Guard runs f and converts a Go panic inside it into a violation with the given
// fingerprint prefix (used where the property says "never panics"). It returns true if f
// panicked.
func (r *Run) Guard(fp string, witness any, f func()) (panicked bool) {
	defer func() {
		if e := recover(); e != nil {
			panicked = true
			st := string(debug.Stack())
			r.Violation(fp+":panic:"+panicSite(st), fmt.Sprintf("panic: %v\n%s", e, trunc(st, 3000)), witness)
		}
	}()
	f()
	return false
}

// Recover runs f and returns the recovered panic value and stack, if any, without
// recording anything.
func Recover(f func()) (perr any, stack string) {
	defer func() {
		if e := recover(); e != nil {
			perr = e
			stack = string(debug.Stack())
		}
	}()
	f()
	return nil, ""
}

// panicSite returns the first go-ethereum function in a stack (stable across line edits).
func panicSite(st string) string {
	for _, l := range strings.Split(st, "\n") {
		if strings.HasPrefix(l, "github.com/ethereum/go-ethereum/") {
			l = strings.TrimPrefix(l, "github.com/ethereum/go-ethereum/")
			if i := strings.LastIndex(l, "("); i > 0 {
				l = l[:i]
			}
			return l
		}
	}
	return "unknown"
}

// PanicSite is exported for harnesses that recover themselves.
func PanicSite(stack string) string { return panicSite(stack) }

func sanitize(s string) string {
	b := []byte(s)
	for i, c := range b {
		if !(c >= 'a' && c <= 'z' || c >= 'A' && c <= 'Z' || c >= '0' && c <= '9' || c == '-' || c == '.') {
			b[i] = '_'
		}
	}
	if len(b) > 80 {
		b = b[:80]
	}
	return string(b)
}

func trunc(s string, n int) string {
	if len(s) > n {
		return s[:n] + "…"
	}
	return s
}

// Hex is a short helper for witnesses.
func Hex(b []byte) string { return hex.EncodeToString(b) }

// Par runs f(i) for i in [0,n) on up to workers goroutines (0 = GOMAXPROCS).
func Par(n, workers int, f func(i int)) {
	if workers <= 0 {
		workers = runtime.GOMAXPROCS(0)
	}
	if workers > n {
		workers = n
	}
	if workers <= 1 {
		for i := 0; i < n; i++ {
			f(i)
		}
		return
	}
	var wg sync.WaitGroup
	var mu sync.Mutex
	next := 0
	for w := 0; w < workers; w++ {
		wg.Add(1)
		go func() {
			defer wg.Done()
			for {
				mu.Lock()
				i := next
				next++
				mu.Unlock()
				if i >= n {
					return
				}
				f(i)
			}
		}()
	}
	wg.Wait()
}

// Main is the entry point of a harness binary.
func Main(id string, fn func(r *Run)) {
	r := &Run{ID: id, Tier: getenv("VERIF_TIER", "quick"), Variant: getenv("VERIF_VARIANT", "default")}
	r.Seed, _ = strconv.ParseInt(getenv("VERIF_SEED", "1"), 10, 64)
	r.Scratch = os.Getenv("VERIF_SCRATCH")
	ownScratch := false
	if r.Scratch == "" {
		d, err := os.MkdirTemp("/dev/shm", "verif-"+id+"-")
		if err != nil {
			d, _ = os.MkdirTemp("", "verif-"+id+"-")
		}
		r.Scratch = d
		ownScratch = true
		// stand-alone run: let re-executed children share this directory instead of
		// creating (and leaving behind) one of their own
		os.Setenv("VERIF_SCRATCH", d)
	}
	r.Replay = getenv("VERIF_REPLAY", filepath.Join("/verif/replay", id))
	r.res = Result{ID: id, Variant: r.Variant, Tier: r.Tier, Seed: r.Seed, Counters: map[string]int64{}, Extra: map[string]any{}, Samples: []any{}, Violations: []Violation{}}
	r.sigs = map[uint64]struct{}{}
	r.start = time.Now()
	if cf := os.Getenv("VERIF_CASEFILE"); cf != "" {
		r.caseFile, _ = os.OpenFile(cf, os.O_CREATE|os.O_RDWR, 0o644)
	}
	// Child modes (re-exec of the same binary) are dispatched before the main workload.
	if mode := os.Getenv("VERIF_CHILD"); mode != "" {
		if f, ok := childModes[mode]; ok {
			f(r)
			if ownScratch {
				os.RemoveAll(r.Scratch)
			}
			os.Exit(0)
		}
		fmt.Fprintf(os.Stderr, "unknown child mode %q\n", mode)
		os.Exit(4)
	}
	fn(r)
	r.finish(ownScratch)
}

func (r *Run) finish(ownScratch bool) {
	r.mu.Lock()
	r.res.Distinct = int64(len(r.sigs))
	r.res.WallS = time.Since(r.start).Seconds()
	res := r.res
	r.mu.Unlock()
	// stable order of counters is given by json map marshalling (sorted keys)
	out := os.Getenv("VERIF_OUT")
	b, err := json.MarshalIndent(res, "", " ")
	if err != nil {
		fmt.Fprintf(os.Stderr, "harness error: cannot marshal result: %v\n", err)
		os.Exit(4)
	}
	if out != "" {
		if err := os.WriteFile(out, b, 0o644); err != nil {
			fmt.Fprintf(os.Stderr, "harness error: %v\n", err)
			os.Exit(4)
		}
	} else {
		// stand-alone invocation: print a summary
		keys := make([]string, 0, len(res.Counters))
		for k := range res.Counters {
			keys = append(keys, k)
		}
		sort.Strings(keys)
		fmt.Printf("[%s] evaluations=%d distinct=%d violations=%d inconclusive=%d wall=%.1fs\n", r.ID, res.Evaluations, res.Distinct, len(res.Violations), len(res.Inconclusive), res.WallS)
		for _, k := range keys {
			fmt.Printf("   %s=%d\n", k, res.Counters[k])
		}
		for _, s := range res.Inconclusive {
			fmt.Printf("   INCONCLUSIVE: %s\n", s)
		}
	}
	if ownScratch {
		os.RemoveAll(r.Scratch)
	}
	switch {
	case len(res.Violations) > 0:
		os.Exit(1)
	case len(res.Inconclusive) > 0:
		os.Exit(3)
	}
	os.Exit(0)
}

var childModes = map[string]func(r *Run){}

// RegisterChild registers a child mode: when the binary is re-executed with
// VERIF_CHILD=mode the function runs instead of the main workload.
func RegisterChild(mode string, f func(r *Run)) { childModes[mode] = f }

func getenv(k, d string) string {
	if v := os.Getenv(k); v != "" {
		return v
	}
	return d
}
