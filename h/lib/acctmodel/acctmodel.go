// Package acctmodel is a reference model of Ethereum account state written from the
// protocol semantics (yellow paper account tuple, EIP-161 touched/empty deletion, EIP-2929/2930
// warm sets, EIP-1153 transient storage, EIP-3529-style refund counter, EIP-6780 created-in-tx
// flag, and the Amsterdam rule "a self-destructed account keeps only its balance").
//
// It shares no code with go-ethereum's core/state: there is no journal (snapshots are deep
// copies pushed on a stack), no object cache, no dirty tracking. It depends only on the
// standard library and on refmpt/refrlp for the state root.
//
// Vocabulary: a State holds the accounts of "now" plus per-transaction scratch data. The
// life cycle is BeginTx … operations / Snapshot / Revert … EndTx, any number of times, with
// Root() callable between transactions.
package acctmodel

import (
	"bytes"
	"math/big"
	"sort"

	"verif/lib/refmpt"
	"verif/lib/refrlp"
)

type Address [20]byte
type Hash [32]byte

// Rules are the fork parameters that influence account semantics at this level.
type Rules struct {
	EIP158    bool // Spurious Dragon: touched empty accounts are deleted at the end of the transaction
	Berlin    bool // EIP-2929/2930: warm sets are (re)initialised at transaction start
	Shanghai  bool // EIP-3651: coinbase is warm
	Cancun    bool // EIP-6780 / EIP-1153 active (only informational here: opcode-level composites are built by callers)
	Amsterdam bool // self-destructed account keeps only its balance (deleted if that balance is zero)
}

// RIPEMD is precompile 0x03, whose "touched" mark survives a revert (mainnet block 1714175 quirk,
// documented in EIP-161 discussions and reproduced by every client).
var RIPEMD = Address{19: 3}

var (
	EmptyCodeHash = toHash(refmpt.Keccak(nil))
	EmptyRoot     = toHash(refmpt.EmptyRoot)
)

func toHash(b []byte) (h Hash) { copy(h[:], b); return }

// Account is one account. Storage holds non-zero slots only.
type Account struct {
	Nonce   uint64
	Balance *big.Int
	Code    []byte
	Storage map[Hash]Hash

	// Transaction-scoped marks.
	NewContract    bool // became a contract in the current transaction (EIP-6780 eligibility)
	SelfDestructed bool // marked by SELFDESTRUCT in the current transaction

	// StorageRootSeen is the storage root as of the most recent Root() computation, or the
	// empty root if the account (incarnation) was created afterwards. It models what a client
	// that hashes lazily can report as "storage root" between root computations.
	StorageRootSeen Hash
}

func (a *Account) clone() *Account {
	c := *a
	c.Balance = new(big.Int).Set(a.Balance)
	c.Code = append([]byte(nil), a.Code...)
	c.Storage = make(map[Hash]Hash, len(a.Storage))
	for k, v := range a.Storage {
		c.Storage[k] = v
	}
	return &c
}

// Empty is the EIP-161 emptiness predicate.
func (a *Account) Empty() bool { return a.Nonce == 0 && a.Balance.Sign() == 0 && len(a.Code) == 0 }

// CodeHash is keccak(code).
func (a *Account) CodeHash() Hash { return toHash(refmpt.Keccak(a.Code)) }

// Log is one emitted log with its positional metadata.
type Log struct {
	Address Address
	Topics  []Hash
	Data    []byte
	TxHash  Hash
	TxIndex int
	Index   uint // position within the block
}

type frame struct {
	accounts  map[Address]*Account
	touched   map[Address]bool
	transient map[Address]map[Hash]Hash
	warmAddr  map[Address]bool
	warmSlot  map[Address]map[Hash]bool
	refund    uint64
	nlogs     int
}

// State is the model state.
type State struct {
	Rules    Rules
	Accounts map[Address]*Account

	// Per transaction.
	TxStart   map[Address]*Account // accounts as of BeginTx (for "committed" storage reads and net-change computations)
	Touched   map[Address]bool
	Transient map[Address]map[Hash]Hash
	WarmAddr  map[Address]bool
	WarmSlot  map[Address]map[Hash]bool
	Refund    uint64
	TxHash    Hash
	TxIndex   int

	// Per block.
	Logs []Log

	// RipemdKept counts reverts in which the touched mark of 0x03 survived (evidence only).
	RipemdKept int

	snaps []*frame
}

// New returns an empty state.
func New(r Rules) *State {
	return &State{
		Rules: r, Accounts: map[Address]*Account{}, TxStart: map[Address]*Account{},
		Touched: map[Address]bool{}, Transient: map[Address]map[Hash]Hash{},
		WarmAddr: map[Address]bool{}, WarmSlot: map[Address]map[Hash]bool{},
	}
}

func cloneAccounts(m map[Address]*Account) map[Address]*Account {
	c := make(map[Address]*Account, len(m))
	for a, acc := range m {
		c[a] = acc.clone()
	}
	return c
}

func cloneSet(m map[Address]bool) map[Address]bool {
	c := make(map[Address]bool, len(m))
	for k, v := range m {
		c[k] = v
	}
	return c
}

func cloneSlots(m map[Address]map[Hash]Hash) map[Address]map[Hash]Hash {
	c := make(map[Address]map[Hash]Hash, len(m))
	for a, s := range m {
		cs := make(map[Hash]Hash, len(s))
		for k, v := range s {
			cs[k] = v
		}
		c[a] = cs
	}
	return c
}

func cloneSlotSet(m map[Address]map[Hash]bool) map[Address]map[Hash]bool {
	c := make(map[Address]map[Hash]bool, len(m))
	for a, s := range m {
		cs := make(map[Hash]bool, len(s))
		for k, v := range s {
			cs[k] = v
		}
		c[a] = cs
	}
	return c
}

// Copy returns an independent deep copy (including open snapshots).
func (s *State) Copy() *State {
	c := &State{
		Rules: s.Rules, Accounts: cloneAccounts(s.Accounts), TxStart: cloneAccounts(s.TxStart),
		Touched: cloneSet(s.Touched), Transient: cloneSlots(s.Transient),
		WarmAddr: cloneSet(s.WarmAddr), WarmSlot: cloneSlotSet(s.WarmSlot),
		Refund: s.Refund, TxHash: s.TxHash, TxIndex: s.TxIndex,
	}
	for _, l := range s.Logs {
		c.Logs = append(c.Logs, cloneLog(l))
	}
	for _, f := range s.snaps {
		c.snaps = append(c.snaps, &frame{
			accounts: cloneAccounts(f.accounts), touched: cloneSet(f.touched),
			transient: cloneSlots(f.transient), warmAddr: cloneSet(f.warmAddr),
			warmSlot: cloneSlotSet(f.warmSlot), refund: f.refund, nlogs: f.nlogs,
		})
	}
	return c
}

func cloneLog(l Log) Log {
	l.Topics = append([]Hash(nil), l.Topics...)
	l.Data = append([]byte(nil), l.Data...)
	return l
}

// ---- transaction life cycle ----

// BeginBlock clears the block-scoped log list.
func (s *State) BeginBlock() { s.Logs = nil }

// BeginTx starts a transaction: records the pre-state, clears transient storage and (from
// Berlin on) initialises the warm sets from sender, destination, precompiles, the
// transaction's access list and (from Shanghai on) the coinbase.
func (s *State) BeginTx(txHash Hash, txIndex int, sender, coinbase Address, dst *Address, precompiles []Address, alAddrs []Address, alSlots map[Address][]Hash) {
	s.TxHash, s.TxIndex = txHash, txIndex
	s.TxStart = cloneAccounts(s.Accounts)
	s.Transient = map[Address]map[Hash]Hash{}
	s.snaps = nil
	if s.Rules.Berlin {
		s.WarmAddr = map[Address]bool{sender: true}
		s.WarmSlot = map[Address]map[Hash]bool{}
		if dst != nil {
			s.WarmAddr[*dst] = true
		}
		for _, p := range precompiles {
			s.WarmAddr[p] = true
		}
		for _, a := range alAddrs {
			s.WarmAddr[a] = true
		}
		for a, ks := range alSlots {
			s.WarmAddr[a] = true
			for _, k := range ks {
				s.warmSlot(a, k)
			}
		}
		if s.Rules.Shanghai {
			s.WarmAddr[coinbase] = true
		}
	}
}

// ResetTxStart re-records the pre-transaction state without touching anything else (for
// callers that run state changes outside BeginTx/EndTx brackets, e.g. block rewards).
func (s *State) ResetTxStart() { s.TxStart = cloneAccounts(s.Accounts) }

// EndTx applies the end-of-transaction rules:
//  1. accounts marked self-destructed are removed; under the Amsterdam rule they instead lose
//     nonce, code and storage and keep their balance;
//  2. from EIP-158 on, every touched account that is empty is removed;
//  3. the refund counter, the transaction marks and all snapshots are discarded. The previous
//     TxStart map is replaced, not mutated (callers may keep it as the pre-state).
func (s *State) EndTx() {
	for addr, a := range s.Accounts {
		if !a.SelfDestructed {
			continue
		}
		if s.Rules.Amsterdam {
			a.Nonce, a.Code, a.Storage = 0, nil, map[Hash]Hash{}
			a.StorageRootSeen = EmptyRoot
			s.Touched[addr] = true // the clearing is itself a state change on the account
		} else {
			delete(s.Accounts, addr)
		}
	}
	if s.Rules.EIP158 {
		for addr := range s.Touched {
			if a, ok := s.Accounts[addr]; ok && a.Empty() {
				delete(s.Accounts, addr)
			}
		}
	}
	for _, a := range s.Accounts {
		a.NewContract, a.SelfDestructed = false, false
	}
	s.Touched = map[Address]bool{}
	s.Refund = 0
	s.snaps = nil
	// Between transactions the "value at transaction start" of every slot is its current value.
	s.TxStart = cloneAccounts(s.Accounts)
}

// ---- snapshots ----

// Snapshot pushes a deep copy and returns its position.
func (s *State) Snapshot() int {
	s.snaps = append(s.snaps, &frame{
		accounts: cloneAccounts(s.Accounts), touched: cloneSet(s.Touched),
		transient: cloneSlots(s.Transient), warmAddr: cloneSet(s.WarmAddr),
		warmSlot: cloneSlotSet(s.WarmSlot), refund: s.Refund, nlogs: len(s.Logs),
	})
	return len(s.snaps) - 1
}

// Depth is the number of open snapshots.
func (s *State) Depth() int { return len(s.snaps) }

// Revert restores snapshot id and discards it and all later ones.
func (s *State) Revert(id int) {
	f := s.snaps[id]
	ripemdTouched := s.Touched[RIPEMD]
	s.Accounts, s.Touched, s.Transient = f.accounts, f.touched, f.transient
	s.WarmAddr, s.WarmSlot, s.Refund = f.warmAddr, f.warmSlot, f.refund
	s.Logs = s.Logs[:f.nlogs]
	if ripemdTouched {
		if !s.Touched[RIPEMD] {
			s.RipemdKept++
		}
		s.Touched[RIPEMD] = true
	}
	s.snaps = s.snaps[:id]
}

// ---- reads ----

func (s *State) Exist(a Address) bool { return s.Accounts[a] != nil }
func (s *State) Empty(a Address) bool {
	acc := s.Accounts[a]
	return acc == nil || acc.Empty()
}
func (s *State) Balance(a Address) *big.Int {
	if acc := s.Accounts[a]; acc != nil {
		return new(big.Int).Set(acc.Balance)
	}
	return new(big.Int)
}
func (s *State) Nonce(a Address) uint64 {
	if acc := s.Accounts[a]; acc != nil {
		return acc.Nonce
	}
	return 0
}
func (s *State) Code(a Address) []byte {
	if acc := s.Accounts[a]; acc != nil {
		return acc.Code
	}
	return nil
}

// CodeHash is the zero hash for a non-existent account (EXTCODEHASH semantics), keccak(code) otherwise.
func (s *State) CodeHash(a Address) Hash {
	if acc := s.Accounts[a]; acc != nil {
		return acc.CodeHash()
	}
	return Hash{}
}

// Storage is the current value of a slot.
func (s *State) Storage(a Address, k Hash) Hash {
	if acc := s.Accounts[a]; acc != nil {
		return acc.Storage[k]
	}
	return Hash{}
}

// Committed is the value the slot had at the start of the current transaction ("original
// value" of EIP-2200/1283); zero for accounts that do not exist now or did not exist then.
func (s *State) Committed(a Address, k Hash) Hash {
	if s.Accounts[a] == nil {
		return Hash{}
	}
	if acc := s.TxStart[a]; acc != nil {
		return acc.Storage[k]
	}
	return Hash{}
}

func (s *State) TransientGet(a Address, k Hash) Hash { return s.Transient[a][k] }
func (s *State) AddrWarm(a Address) bool             { return s.WarmAddr[a] }
func (s *State) SlotWarm(a Address, k Hash) (bool, bool) {
	return s.WarmAddr[a], s.WarmSlot[a][k]
}
func (s *State) HasSelfDestructed(a Address) bool {
	acc := s.Accounts[a]
	return acc != nil && acc.SelfDestructed
}
func (s *State) IsNewContract(a Address) bool {
	acc := s.Accounts[a]
	return acc != nil && acc.NewContract
}

// StorageRootSeen: see Account.StorageRootSeen; zero hash for a non-existent account.
func (s *State) StorageRootSeen(a Address) Hash {
	if acc := s.Accounts[a]; acc != nil {
		return acc.StorageRootSeen
	}
	return Hash{}
}

// ---- writes ----

func (s *State) touch(a Address) { s.Touched[a] = true }

// getOrCreate returns the account, bringing it into existence (empty) if needed; creation
// counts as touching.
func (s *State) getOrCreate(a Address) *Account {
	acc := s.Accounts[a]
	if acc == nil {
		acc = &Account{Balance: new(big.Int), Storage: map[Hash]Hash{}, StorageRootSeen: EmptyRoot}
		s.Accounts[a] = acc
		s.touch(a)
	}
	return acc
}

// AddBalance credits amount (possibly zero: a zero-value transfer still touches the recipient).
func (s *State) AddBalance(a Address, amount *big.Int) {
	acc := s.getOrCreate(a)
	s.touch(a)
	acc.Balance = new(big.Int).Add(acc.Balance, amount)
}

// SubBalance debits amount; the caller guarantees sufficiency.
func (s *State) SubBalance(a Address, amount *big.Int) {
	acc := s.getOrCreate(a)
	s.touch(a)
	acc.Balance = new(big.Int).Sub(acc.Balance, amount)
	if acc.Balance.Sign() < 0 {
		panic("acctmodel: negative balance (caller violated precondition)")
	}
}

func (s *State) SetNonce(a Address, n uint64) {
	acc := s.getOrCreate(a)
	s.touch(a)
	acc.Nonce = n
}

func (s *State) SetCode(a Address, code []byte) {
	acc := s.getOrCreate(a)
	s.touch(a)
	acc.Code = append([]byte(nil), code...)
}

// SetStorage writes a slot of an existing account.
func (s *State) SetStorage(a Address, k, v Hash) {
	acc := s.getOrCreate(a)
	s.touch(a)
	if v == (Hash{}) {
		delete(acc.Storage, k)
	} else {
		acc.Storage[k] = v
	}
}

func (s *State) TransientSet(a Address, k, v Hash) {
	m := s.Transient[a]
	if m == nil {
		m = map[Hash]Hash{}
		s.Transient[a] = m
	}
	if v == (Hash{}) {
		delete(m, k)
	} else {
		m[k] = v
	}
}

func (s *State) WarmAddress(a Address) { s.WarmAddr[a] = true }
func (s *State) warmSlot(a Address, k Hash) {
	m := s.WarmSlot[a]
	if m == nil {
		m = map[Hash]bool{}
		s.WarmSlot[a] = m
	}
	m[k] = true
}

// WarmSlotAdd warms (address, slot); the address becomes warm as well.
func (s *State) WarmSlotAdd(a Address, k Hash) { s.WarmAddr[a] = true; s.warmSlot(a, k) }

func (s *State) AddRefund(n uint64) { s.Refund += n }
func (s *State) SubRefund(n uint64) {
	if n > s.Refund {
		panic("acctmodel: refund below zero (caller violated precondition)")
	}
	s.Refund -= n
}

// AddLog appends a log with the current transaction's identity and the next block-wide index.
func (s *State) AddLog(addr Address, topics []Hash, data []byte) {
	s.Logs = append(s.Logs, cloneLog(Log{Address: addr, Topics: topics, Data: data, TxHash: s.TxHash, TxIndex: s.TxIndex, Index: uint(len(s.Logs))}))
}

// CreateAccount brings a fresh empty account into existence at an address that has none.
func (s *State) CreateAccount(a Address) {
	s.Accounts[a] = &Account{Balance: new(big.Int), Storage: map[Hash]Hash{}, StorageRootSeen: EmptyRoot}
	s.touch(a)
}

// MarkNewContract flags an existing account as "became a contract in this transaction".
func (s *State) MarkNewContract(a Address) { s.Accounts[a].NewContract = true }

// SelfDestruct marks an existing account for removal at the end of the transaction; no-op for
// a non-existent one. Balance movement is the caller's business (it differs per fork).
func (s *State) SelfDestruct(a Address) {
	if acc := s.Accounts[a]; acc != nil {
		acc.SelfDestructed = true
		s.touch(a)
	}
}

// ---- state root ----

func trimLeft(b []byte) []byte {
	for len(b) > 0 && b[0] == 0 {
		b = b[1:]
	}
	return b
}

// StorageRoot computes the storage trie root of an account: keccak(slot) -> rlp(trimmed value).
func StorageRoot(st map[Hash]Hash) Hash {
	if len(st) == 0 {
		return EmptyRoot
	}
	m := make(map[string][]byte, len(st))
	for k, v := range st {
		if v == (Hash{}) {
			continue
		}
		m[string(refmpt.Keccak(k[:]))] = refrlp.EncodeString(trimLeft(v[:]))
	}
	return toHash(refmpt.Build(m).Root)
}

// AccountRLP is rlp([nonce, balance, storageRoot, codeHash]).
func AccountRLP(a *Account, storageRoot Hash) []byte {
	ch := a.CodeHash()
	return refrlp.EncodeListRaw(
		refrlp.EncodeUint(a.Nonce),
		refrlp.EncodeString(a.Balance.Bytes()),
		refrlp.EncodeString(storageRoot[:]),
		refrlp.EncodeString(ch[:]),
	)
}

// Root computes the state root of the current accounts (call it between transactions) and
// refreshes every account's StorageRootSeen.
func (s *State) Root() Hash {
	m := make(map[string][]byte, len(s.Accounts))
	for addr, a := range s.Accounts {
		sr := StorageRoot(a.Storage)
		a.StorageRootSeen = sr
		m[string(refmpt.Keccak(addr[:]))] = AccountRLP(a, sr)
	}
	return toHash(refmpt.Build(m).Root)
}

// RootOf computes the root of an account map without side effects.
func RootOf(accts map[Address]*Account) Hash {
	m := make(map[string][]byte, len(accts))
	for addr, a := range accts {
		m[string(refmpt.Keccak(addr[:]))] = AccountRLP(a, StorageRoot(a.Storage))
	}
	return toHash(refmpt.Build(m).Root)
}

// SortedAddresses lists existing accounts in address order.
func (s *State) SortedAddresses() []Address {
	out := make([]Address, 0, len(s.Accounts))
	for a := range s.Accounts {
		out = append(out, a)
	}
	sort.Slice(out, func(i, j int) bool { return bytes.Compare(out[i][:], out[j][:]) < 0 })
	return out
}
