#!/bin/bash
# Builds the verification framework offline from files on disk: the driver bin/vcheck and
# (to warm the Go build cache) every harness variant used by the quick tier.
set -e
cd /verif
. ./env.sh
mkdir -p bin .build evidence replay
if [ ! -x "$GO" ]; then echo "pinned toolchain $GO missing"; exit 1; fi
cp /repo/go.sum h/go.sum.repo 2>/dev/null || true
# keep our go.sum a superset of the repository's (the harness replaces geth => /repo)
cat h/go.sum h/go.sum.repo 2>/dev/null | sort -u > h/go.sum.new && mv h/go.sum.new h/go.sum; rm -f h/go.sum.repo
(cd h && $GO build -o /verif/bin/vcheck ./cmd/vcheck)
bin/vcheck manifest >/dev/null
bin/vcheck build-all
echo "setup ok"
