#!/bin/bash
# tools/sweep.sh [tier] [ids...] — run every registered check (or the listed ones) sequentially
# against /repo, one line per check: id, exit code, wall seconds. Used for the clean sweeps whose
# evidence files are committed. VERIF_SEED is passed through.
cd /verif
tier=${1:-quick}; shift
ids="$@"
[ -z "$ids" ] && ids=$(python3 -c "import json;print(' '.join(c['property_id'] for c in json.load(open('MANIFEST.json'))['checks']))")
mkdir -p .build/sweep
for id in $ids; do
  t0=$(date +%s)
  bin/vcheck run $id --tier $tier > .build/sweep/$id.$tier.log 2>&1; rc=$?
  t1=$(date +%s)
  echo "$id exit=$rc wall=$((t1-t0))s $(grep -c '^KNOWN-FINDING' .build/sweep/$id.$tier.log) known $(grep -m1 '^VIOLATION' .build/sweep/$id.$tier.log)"
done
