#!/bin/bash
# tools/psweep.sh <tier> <streams> <timeout_s> ids... — run checks in N parallel streams (development aid:
# looks for alarms on the unchanged tree; the committed evidence comes from tools/sweep.sh on a quiet machine)
cd /verif
tier=$1; n=$2; to=$3; shift 3
ids=("$@")
mkdir -p .build/sweep
for ((s=0; s<n; s++)); do
  (
    for ((i=s; i<${#ids[@]}; i+=n)); do
      id=${ids[$i]}
      t0=$(date +%s)
      timeout $to bin/vcheck run $id --tier $tier > .build/sweep/$id.$tier.log 2>&1; rc=$?
      t1=$(date +%s)
      echo "$id exit=$rc wall=$((t1-t0))s $(grep -c '^KNOWN-FINDING' .build/sweep/$id.$tier.log) known $(grep -m1 '^VIOLATION\|^INCONCLUSIVE' .build/sweep/$id.$tier.log | cut -c1-200)"
    done
  ) &
done
wait
