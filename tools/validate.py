#!/usr/bin/env python3
"""Validate MANIFEST.json and evidence/*.json against the schemas in /root/.vp."""
import json, sys, glob
import jsonschema
ok = True
def check(path, schema):
    global ok
    try:
        jsonschema.validate(json.load(open(path)), json.load(open(schema)))
        print("valid  ", path)
    except Exception as e:
        ok = False
        print("INVALID", path, str(e).split("\n")[0])
check("/verif/MANIFEST.json", "/root/.vp/MANIFEST.schema.json")
for f in sorted(glob.glob("/verif/evidence/*.json")):
    check(f, "/root/.vp/EVIDENCE.schema.json")
sys.exit(0 if ok else 1)
