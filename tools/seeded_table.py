#!/usr/bin/env python3
"""Regenerate /verif/seeded/README.md from the meta.json files."""
import json,glob,os
rows=[]
strengthened=json.load(open('/verif/seeded/STRENGTHENED.json')) if os.path.exists('/verif/seeded/STRENGTHENED.json') else {}
for m in sorted(glob.glob('/verif/seeded/*/meta.json')):
    d=json.load(open(m)); sid=os.path.basename(os.path.dirname(m))
    notes=os.path.join(os.path.dirname(m),'NOTES.md')
    first=''
    if os.path.exists(notes):
        for l in open(notes):
            l=l.strip()
            if l and not l.startswith('#'):
                first=l[:160]; break
    caught=d.get('caught_by')
    if not caught:
        caught='quick' if d.get('caught_by_quick_check') else 'MISSED (quick)'
    if sid in strengthened:
        caught+=' — '+strengthened[sid]
    rows.append((sid,d['property'],'yes' if d.get('confirmed') else 'NO',caught,' '.join(d.get('violation_fingerprints',[])[:3]),first))
out=["# Independently seeded changes","",
"Each directory holds a change to go-ethereum written by a sub-agent that saw only the property text",
"(patch.diff), its demonstration (demo/), the author's notes (NOTES.md) and meta.json with what was",
"confirmed here (`tools/seedcheck.sh <id>`: demo passes on the clean tree and fails on the seeded tree, the",
"seeded tree builds and passes the touched package's own tests, and the result of our check against it).","",
"| id | property | confirmed | caught by | fingerprints reported | change (first line of the notes) |","|---|---|---|---|---|---|"]
for r in rows: out.append("| "+" | ".join(r)+" |")
open('/verif/seeded/README.md','w').write("\n".join(out)+"\n")
print(len(rows),"rows")
