#!/bin/bash
# tools/seedcheck.sh <ID> [check-id]  — confirm an independently seeded change and run our check against it.
# Input: /tmp/seed-out/<ID>/{patch.diff,demo/*,NOTES.md}. Output: /verif/seeded/<ID>/{patch.diff,demo/,NOTES.md,meta.json,check.log}
ID=$1; CHK=${2:-$ID}
. /verif/env.sh
SRC=/tmp/seed-out/$ID; OUT=/verif/seeded/$ID; WT=/dev/shm/wt-seed-$ID
[ -f $SRC/patch.diff ] || { echo "no patch for $ID"; exit 1; }
mkdir -p $OUT/demo; cp $SRC/patch.diff $OUT/; cp -r $SRC/demo/. $OUT/demo/; cp $SRC/NOTES.md $OUT/ 2>/dev/null
git -C /repo worktree remove --force $WT 2>/dev/null; git -C /repo worktree add --detach $WT >/dev/null 2>&1 || { echo "worktree failed"; exit 1; }
cd $WT
runline=$(grep -h -m1 "go test\|GO test" $OUT/demo/*.go $OUT/NOTES.md | head -1 | sed 's/.*\(\$GO test\|go test\)/go test/; s/ *(copy.*//; s/`.*//')
pkg=$(echo "$runline" | grep -o '\./[A-Za-z0-9_/]*' | tail -1); pkg=${pkg%/}
tags=""; echo "$runline" | grep -q -- "-tags verif" && tags="-tags verif"
pat=$(echo "$runline" | grep -o "\-run *'\?[A-Za-z0-9_|]*'\?" | sed "s/-run *//; s/'//g")
tpkg=$pkg; [ -d $pkg ] || { mkdir -p $pkg; tpkg=$(dirname $pkg); }   # demo in a package of its own: the existing tests are the parent's
cp $OUT/demo/*.go $pkg/ 2>/dev/null
demo() { timeout 1500 $GO test $tags -count=1 -run "$pat" $pkg/ >$1 2>&1; echo $?; }
clean=$(demo $OUT/demo_clean.log)
git apply $OUT/patch.diff || { echo "patch does not apply"; git -C /repo worktree remove --force $WT; exit 1; }
build=$($GO build ./... >/dev/null 2>$OUT/build.log; echo $?)
seeded=$(demo $OUT/demo_seeded.log)
# the package's own tests with the patch (demo file removed)
rm -f $pkg/seeded_demo_test.go; for f in $OUT/demo/*.go; do rm -f $pkg/$(basename $f); done
pkgtests=$(timeout 2400 $GO test -count=1 $tpkg/ >$OUT/pkgtests.log 2>&1; echo $?)
# our check against the seeded tree (quick tier)
(cd /verif && VERIF_REPO=$WT timeout 3600 bin/vcheck run $CHK --tier quick) > $OUT/check.log 2>&1; chk=$?
fps=$(grep "fingerprint=" $OUT/check.log | sed 's/.*fingerprint=\([^ ]*\).*/\1/' | sort -u | head -5 | tr '\n' ' ')
python3 - "$ID" "$CHK" "$clean" "$seeded" "$build" "$pkgtests" "$chk" "$fps" "$runline" <<'PY'
import json,sys
ID,CHK,clean,seeded,build,pkgtests,chk,fps,runline=sys.argv[1:]
notes=open(f'/verif/seeded/{ID}/NOTES.md').read() if __import__('os').path.exists(f'/verif/seeded/{ID}/NOTES.md') else ''
meta={"property":CHK,"seed_id":ID,"demo_cmd":runline,
 "demo_passes_on_clean_tree":clean=="0","demo_fails_on_seeded_tree":seeded!="0","seeded_tree_builds":build=="0",
 "package_tests_pass_with_patch":pkgtests=="0",
 "check_cmd":f"VERIF_REPO=<worktree with patch> bin/vcheck run {CHK} --tier quick","check_exit":int(chk),
 "caught_by_quick_check":chk=="1","violation_fingerprints":fps.split(),
 "needs_to_manifest":"see NOTES.md","confirmed":clean=="0" and seeded!="0" and build=="0" and pkgtests=="0"}
json.dump(meta,open(f'/verif/seeded/{ID}/meta.json','w'),indent=1)
print(ID, "confirmed" if meta["confirmed"] else "NOT-CONFIRMED", "caught" if meta["caught_by_quick_check"] else f"missed(exit {chk})", fps)
PY
rm -f $OUT/build.log
git -C /repo worktree remove --force $WT
